(** Property C13 — TinyLFU admission: a newcomer displaces residents only if strictly more popular.
    Single-threaded cache, for ALL states reachable or not that are well formed, all
    configurations (capacities, weights incl. 0, colliding hashers): when a new key arrives at a
    cache without room for it (and is not heavier than the whole capacity), it is admitted IFF
    the shortest least-recently-used prefix of residents whose combined weight reaches its own
    weight exists AND its popularity estimate is STRICTLY greater than the summed estimates of
    that prefix ([tinylfu_victims], Unsync/UPolicyDefs.v); if admitted exactly that prefix is
    evicted and the newcomer becomes most recently used; otherwise NO resident is touched.
    (The early exit of the scan on `candidate.freq < victims.freq` is proved never to change
    the outcome.)  The concurrent cache (sync after every op) runs the same decision inside
    handle_upsert; it is tied by the lock-step correspondence and the prediction oracle. *)
From MM Require Import Unsync.UInvDefs Unsync.UInv Unsync.UPolicyDefs Unsync.UPolicy Sync.SInvDefs Sync.SPolicyDefs Sync.SPolicy Sync.SRecency Sync.SEndToEnd.

Theorem C13_unsync_admission : forall c s now k v s1 ts s',
  cfg_ok c -> WF' c s -> small s ->
  maintain c s now = Ok (s1, ts) -> u_map s1 !! k = None ->
  has_enough_capacity c (weigh c k v) (u_ws s1) = Ok false ->
  (forall cap, uc_cap c = Some cap -> weigh c k v <= cap) ->
  u_insert c s now k v = Ok s' ->
  match tinylfu_victims (lru_triples c s1) (weigh c k v) (frequency (u_sk s1) (uc_hash c k)) with
  | Some p =>
      view s' = <[k := v]> (delete_keys (p.*1.*1) (view s1)) /\
      lru_keys s' = drop (length p) (lru_keys s1) ++ [k] /\
      p.*1.*1 = take (length p) (lru_keys s1)
  | None =>
      view s' = view s1 /\ u_prob s' = u_prob s1 /\ u_wo s' = u_wo s1 /\ u_ws s' = u_ws s1
  end.
Proof. exact u_insert_admission. Qed.

(** a newcomer heavier than the whole capacity is rejected without touching anything *)
Theorem C13_unsync_oversized_rejected : forall c s now k v s1 ts s' cap,
  cfg_ok c -> WF' c s -> small s ->
  maintain c s now = Ok (s1, ts) -> u_map s1 !! k = None ->
  uc_cap c = Some cap -> cap < weigh c k v ->
  u_insert c s now k v = Ok s' ->
  view s' = view s1 /\ u_prob s' = u_prob s1 /\ u_ws s' = u_ws s1.
Proof. exact u_insert_oversized. Qed.

(** concurrent cache with maintenance after every operation: what the next maintenance run does
    with the pending write op of a fresh insert (the only thing queued): no capacity / fits =>
    admitted, nothing evicted; heavier than the capacity => rejected, nothing touched; otherwise
    admitted IFF the shortest LRU prefix reaching its weight exists and its estimate is strictly
    greater than the prefix's summed estimates — then exactly that prefix is evicted — else the
    newcomer is removed and no resident is touched *)
Theorem C13_sync_admission : forall c s k ve w s',
  scfg_ok c -> SInv c s -> s_small s -> pending_insert c s k ve w ->
  apply_writes c s 1 = Ok s' ->
  SInv c s' /\ quiescent s' /\
  match sc_cap c with
  | None =>
      s_view s' = s_view s /\ s_lru_keys s' = s_lru_keys s ++ [k] /\ s_ws s' = s_ws s + w
  | Some cap =>
    if s_ws s + w <=? cap then
      s_view s' = s_view s /\ s_lru_keys s' = s_lru_keys s ++ [k] /\ s_ws s' = s_ws s + w
    else if cap <? w then
      s_view s' = delete k (s_view s) /\ s_prob s' = s_prob s /\ s_wo s' = s_wo s /\ s_ws s' = s_ws s
    else match tinylfu_victims (s_lru_triples s) w (frequency (s_sk s) (sc_hash c k)) with
         | Some p =>
             s_view s' = delete_keys (p.*1.*1) (s_view s) /\
             s_lru_keys s' = drop (length p) (s_lru_keys s) ++ [k] /\
             p.*1.*1 = take (length p) (s_lru_keys s) /\
             s_ws s' + sum_w p = s_ws s + w
         | None =>
             s_view s' = delete k (s_view s) /\ s_prob s' = s_prob s /\ s_wo s' = s_wo s /\ s_ws s' = s_ws s
         end
  end.
Proof. exact s_pending_insert_outcome. Qed.

(** OPERATION LEVEL, concurrent cache with maintenance after every operation (Sync/SEndToEnd.v): the
    operation and the maintenance run that follows it, composed, in BOTH housekeeping regimes, stated on
    the quiescent state before the operation (no expiry configured, no invalidate_all cut-off pending). *)
Theorem C13_sync_insert_then_maintenance : forall c r k v r1 o1 r2 o2,
  let s := sr_state r in let s' := sr_state r2 in let w := sweigh c k v in
  scfg_ok c -> SInv c s -> s_small s -> s_next s + 2 < 2 ^ 31 ->
  quiescent s -> noexp c s -> within c s -> s_map s !! k = None ->
  sstep c r (SInsert k v) = Ok (r1, o1) -> sstep c r1 SSync = Ok (r2, o2) ->
  SInv c s' /\ quiescent s' /\
  match sc_cap c with
  | None => s_view s' = <[k := v]> (s_view s) /\ s_lru_keys s' = s_lru_keys s ++ [k] /\ s_ws s' = s_ws s + w
  | Some cap =>
    if s_ws s + w <=? cap then
      s_view s' = <[k := v]> (s_view s) /\ s_lru_keys s' = s_lru_keys s ++ [k] /\ s_ws s' = s_ws s + w
    else if cap <? w then
      s_view s' = s_view s /\ s_lru_keys s' = s_lru_keys s /\ s_ws s' = s_ws s
    else match tinylfu_victims (s_lru_triples s) w (frequency (s_sk s) (sc_hash c k)) with
         | Some p =>
             s_view s' = <[k := v]> (delete_keys (p.*1.*1) (s_view s)) /\
             s_lru_keys s' = drop (length p) (s_lru_keys s) ++ [k] /\
             p.*1.*1 = take (length p) (s_lru_keys s) /\
             s_ws s' + sum_w p = s_ws s + w
         | None =>
             s_view s' = s_view s /\ s_lru_keys s' = s_lru_keys s /\ s_ws s' = s_ws s
         end
  end.
Proof. exact s_insert_sync_outcome. Qed.

Print Assumptions C13_sync_insert_then_maintenance.
Print Assumptions C13_sync_admission.
Print Assumptions C13_unsync_admission.
Print Assumptions C13_unsync_oversized_rejected.
