(** Property C04 — capacity bound: resident weight never stays above max_capacity.
    Single-threaded cache: [u_ws] IS the resident weight (C10: u_ws = map_weight), and for
    every operation from every well-formed state the weighted size never grows beyond
    max(capacity, what it was) except by the growth of an in-place update; the maintenance
    every operation starts with brings it back within capacity or evicts a whole batch
    (progress); a fresh insert heavier than the capacity is never retained.
    Concurrent cache: see the sync section (after the maintenance run that empties the queues). *)
From MM Require Import Unsync.UInvDefs Unsync.UInv Unsync.UPolicyDefs Unsync.UPolicy Sync.SInvDefs Sync.SInvWrites Sync.SInvTop Sync.SPolicyDefs Sync.SPolicy Conc.HK Sync.SRecency Sync.SEndToEnd.

Theorem C04_unsync_never_grows_beyond_capacity : forall c r o r' out cap,
  cfg_ok c -> WF' c (ur_state r) -> small (ur_state r) -> ustep c r o = Ok (r', out) -> uc_cap c = Some cap ->
  let grow := match o with
              | UInsert k v => match u_map (ur_state r) !! k with
                               | Some e => weigh c k v - ue_weight e | None => 0 end
              | _ => 0 end in
  u_ws (ur_state r') <= N.max cap (u_ws (ur_state r)) + grow.
Proof. exact ustep_capacity. Qed.

Theorem C04_unsync_excess_is_removed : forall c s now s1 ts cap,
  cfg_ok c -> WF' c s -> small s -> maintain c s now = Ok (s1, ts) -> uc_cap c = Some cap ->
  u_ws s1 <= cap \/ (size (u_map s1) + N.to_nat U_EVICTION_BATCH_SIZE <= size (u_map s))%nat.
Proof. exact maintain_capacity. Qed.

Theorem C04_unsync_oversized_never_retained : forall c s now k v s1 ts s' cap,
  cfg_ok c -> WF' c s -> small s ->
  maintain c s now = Ok (s1, ts) -> u_map s1 !! k = None ->
  uc_cap c = Some cap -> cap < weigh c k v ->
  u_insert c s now k v = Ok s' ->
  view s' = view s1 /\ u_prob s' = u_prob s1 /\ u_ws s' = u_ws s1.
Proof. exact u_insert_oversized. Qed.

(** the weighted size is the physical resident weight (C10) *)
Theorem C04_unsync_ws_is_resident_weight : forall c ops r outs, cfg_ok c -> N.of_nat (length ops) < 2 ^ 24 ->
  urun_ops c urun_init ops = Ok (r, outs) ->
  u_ec (ur_state r) = map_count (u_map (ur_state r)) /\ u_ws (ur_state r) = map_weight (u_map (ur_state r)).
Proof. exact urun_counters. Qed.

(** concurrent cache: after a maintenance run nothing is queued and weighted_size IS the
    weigher's sum over what the map holds (so the capacity test of evict_lru_entries is about
    the real resident weight) *)
Theorem C04_sync_ws_is_resident_weight_after_maintenance : forall c s, SInv c s -> quiescent s ->
  s_ec s = N.of_nat (size (s_map s)) /\ s_ec s = qlen (s_prob s) /\ s_ws s = s_map_weight c s /\
  (forall k ve, s_map s !! k = Some ve -> si_admitted (get_info s (ve_info s ve)) = true) /\
  (forall n nd, (n, nd) ∈ s_prob s -> map_has_info s (sa_key nd) (sa_info nd) = true).
Proof. exact quiescent_counters. Qed.
Theorem C04_sync_maintenance_quiesces : forall c s now, scfg_ok c -> SInv c s -> s_small s ->
  exists s', s_sync c s now = Ok s' /\ SInv c s' /\ quiescent s'.
Proof. exact sync_quiescent. Qed.
(** between maintenance runs the cache overshoots by no more than its bounded write queue plus
    one entry per inserting thread (abstract housekeeper model, all interleavings, unit weights) *)
Theorem C04_conc_overshoot_bound : forall cap a0 progs st,
  a0 <= cap -> NoDup (map fst progs) -> hk_reachable cap a0 progs st ->
  h_resident st <= cap + WRITE_LOG_SIZE + N.of_nat (length progs).
Proof. exact hk_overshoot. Qed.

(** after a maintenance run the weighted size (= the physical resident weight) is within
    capacity, or a whole batch of entries was evicted *)
Theorem C04_sync_within_capacity_after_maintenance : forall c s now s' cap,
  scfg_ok c -> SInv c s -> s_small s -> s_sync c s now = Ok s' -> sc_cap c = Some cap ->
  s_ws s' <= cap \/ (size (s_map s') + N.to_nat S_EVICTION_BATCH_SIZE <= size (s_map s) + length (s_wq s))%nat.
Proof. exact s_sync_capacity. Qed.
(** a pending fresh insert heavier than the capacity is rejected by the next maintenance run (middle branch) *)
Theorem C04_sync_oversized_never_retained : forall c s k ve w s',
  scfg_ok c -> SInv c s -> s_small s -> pending_insert c s k ve w ->
  apply_writes c s 1 = Ok s' ->
  SInv c s' /\ quiescent s' /\
  match sc_cap c with
  | None =>
      s_view s' = s_view s /\ s_lru_keys s' = s_lru_keys s ++ [k] /\ s_ws s' = s_ws s + w
  | Some cap =>
    if s_ws s + w <=? cap then
      s_view s' = s_view s /\ s_lru_keys s' = s_lru_keys s ++ [k] /\ s_ws s' = s_ws s + w
    else if cap <? w then
      s_view s' = delete k (s_view s) /\ s_prob s' = s_prob s /\ s_wo s' = s_wo s /\ s_ws s' = s_ws s
    else match tinylfu_victims (s_lru_triples s) w (frequency (s_sk s) (sc_hash c k)) with
         | Some p =>
             s_view s' = delete_keys (p.*1.*1) (s_view s) /\
             s_lru_keys s' = drop (length p) (s_lru_keys s) ++ [k] /\
             p.*1.*1 = take (length p) (s_lru_keys s) /\
             s_ws s' + sum_w p = s_ws s + w
         | None =>
             s_view s' = delete k (s_view s) /\ s_prob s' = s_prob s /\ s_wo s' = s_wo s /\ s_ws s' = s_ws s
         end
  end.
Proof. exact s_pending_insert_outcome. Qed.

(** OPERATION LEVEL, concurrent cache with maintenance after every operation (Sync/SEndToEnd.v): the
    operation and the maintenance run that follows it, composed, in BOTH housekeeping regimes, stated on
    the quiescent state before the operation (no expiry configured, no invalidate_all cut-off pending). *)
Theorem C04_sync_update_then_maintenance : forall c r k v v0 r1 o1 r2 o2,
  let s := sr_state r in let s' := sr_state r2 in let w := sweigh c k v in
  scfg_ok c -> SInv c s -> s_small s -> s_next s + 1 < 2 ^ 31 ->
  quiescent s -> noexp c s -> within c s ->
  s_view s !! k = Some v0 ->
  sstep c r (SInsert k v) = Ok (r1, o1) -> sstep c r1 SSync = Ok (r2, o2) ->
  SInv c s' /\ quiescent s' /\
  let order := touch k (s_lru_keys s) in
  let m := <[k := v]> (s_view s) in
  let total := s_ws s + w - sweigh c k v0 in
  let excess := match sc_cap c with Some cap => total - cap | None => 0 end in
  k ∈ s_lru_keys s /\ sweigh c k v0 <= s_ws s /\
  exists n,
    s_lru_keys s' = drop n order /\
    s_view s' = delete_keys (take n order) m /\
    s_ws s' + keys_weight c m (take n order) = total /\
    (n = 0%nat \/ keys_weight c m (take (n - 1) order) < excess) /\
    (excess <= keys_weight c m (take n order) \/ n = batch_s \/ n = length order) /\
    (n = 0%nat <-> excess = 0) /\
    (within c s' \/ n = batch_s).
Proof. exact s_update_sync_outcome. Qed.

Print Assumptions C04_sync_update_then_maintenance.
Print Assumptions C04_sync_within_capacity_after_maintenance.
Print Assumptions C04_sync_oversized_never_retained.
Print Assumptions C04_sync_ws_is_resident_weight_after_maintenance.
Print Assumptions C04_sync_maintenance_quiesces.
Print Assumptions C04_conc_overshoot_bound.
Print Assumptions C04_unsync_never_grows_beyond_capacity.
Print Assumptions C04_unsync_excess_is_removed.
Print Assumptions C04_unsync_oversized_never_retained.
Print Assumptions C04_unsync_ws_is_resident_weight.
