(** Property C16 — iteration yields every live entry exactly once.
    Sequential clause (both caches): an iteration at clock reading [now] is a duplicate-free
    listing of exactly the physically held entries that are not expired at [now], each with
    its current value; and (C01) every listed entry is justified by the history.
    Concurrent clause (Conc/ShardIter.v): the map is sharded, every key belongs statically to
    one shard ([sh], an arbitrary function), the iterator lists one shard at a time (atomically
    w.r.t. writers of that shard: it holds the shard lock) in shard order, and writer threads
    update existing keys at any time in between — for EVERY interleaving [tr] of updates and
    listing steps.  PARTIAL: that DashMap's iterator behaves like this model is assumed
    (trusted base); the tie is a real-thread stress run checked by the same statement. *)
From MM Require Import Contract.Trace Contract.UnsyncTrace Contract.SyncTrace Contract.Glue Contract.LastInsert
  Unsync.UInvDefs Unsync.UInv Conc.ShardIter.

Theorem C16_unsync_iter_exact : forall c s now l, cfg_ok c -> WF' c s -> u_iter c s now = Ok l ->
  NoDup l.*1 /\
  forall k v, (k, v) ∈ l <->
    exists e, u_map s !! k = Some e /\ ue_val e = v /\ entry_expired c s e now = Ok false.
Proof. exact u_iter_exact. Qed.

Theorem C16_sync_iter_exact : forall c s now,
  NoDup (s_iter c s now).*1 /\
  forall k v, (k, v) ∈ s_iter c s now <->
    exists ve, s_map s !! k = Some ve /\ sv_val (get_ve s ve) = v /\
               info_expired c s (get_info s (ve_info s ve)) now = false.
Proof. exact s_iter_exact. Qed.

(** never an expired or invalidated entry, in any run (the iteration clause of [u_out_ok]/[s_out_ok]) *)
Theorem C16_unsync_iter_justified : forall c ops, cfg_ok c -> N.of_nat (length ops) < 2 ^ 24 ->
  u_trace_ok c ∅ urun_init ops.
Proof. exact u_trace_ok_all. Qed.
Theorem C16_sync_iter_justified : forall c ops, s_trace_ok c ∅ srun_init ops.
Proof. exact s_trace_ok_all. Qed.
(** iteration changes nothing *)
Theorem C16_unsync_iter_pure : forall c r r' out, ustep c r UIter = Ok (r', out) -> r' = r.
Proof. exact u_iter_pure. Qed.
Theorem C16_sync_iter_pure : forall c r, exists l, sstep c r SIter = Ok (r, SOList l).
Proof. exact s_iter_pure. Qed.

(** beside concurrent updaters: no key twice, every resident key exactly once, values current
    at some moment of the iteration *)
Theorem C16_conc_no_duplicates : forall sh m0 tr, NoDup (is_out (s_run sh (s_init m0) tr)).*1.
Proof. exact iter_no_duplicates. Qed.
Theorem C16_conc_complete : forall sh n m0 tr, (forall k, (sh k < n)%nat) -> count_lists tr = n ->
  forall k, is_Some (m0 !! k) -> k ∈ (is_out (s_run sh (s_init m0) tr)).*1.
Proof. exact iter_complete. Qed.
Theorem C16_conc_only_residents : forall sh m0 tr k,
  k ∈ (is_out (s_run sh (s_init m0) tr)).*1 -> is_Some (m0 !! k).
Proof. exact iter_only_residents. Qed.
Theorem C16_conc_value_was_current : forall sh m0 tr k v,
  (k, v) ∈ is_out (s_run sh (s_init m0) tr) ->
  exists tr1 tr2, tr = tr1 ++ tr2 /\ is_map (s_run sh (s_init m0) tr1) !! k = Some v.
Proof. exact iter_value_was_current. Qed.

(** every pair an iteration yields carries the value of the textually last insert of its key
    in the history (Contract/LastInsert.v; deadlines: C05/C06 `…_iter_past_deadline`) *)
Theorem C16_unsync_iter_shows_last_insert : forall c ops r run run' l,
  cfg_ok c -> N.of_nat (length (ops ++ [UIter])) < 2 ^ 24 ->
  u_ref_after c ∅ urun_init ops = Some (r, run) ->
  ustep c run UIter = Ok (run', OList l) ->
  forall k v, (k, v) ∈ l -> u_last_insert k ops = Some v.
Proof. exact u_iter_shows_last_insert. Qed.
Theorem C16_sync_iter_shows_last_insert : forall c ops r run run' l,
  s_ref_after c ∅ srun_init ops = Some (r, run) ->
  sstep c run SIter = Ok (run', SOList l) ->
  forall k v, (k, v) ∈ l -> s_last_insert k ops = Some v.
Proof. exact s_iter_shows_last_insert. Qed.

Print Assumptions C16_conc_no_duplicates.
Print Assumptions C16_conc_complete.
Print Assumptions C16_conc_only_residents.
Print Assumptions C16_conc_value_was_current.
Print Assumptions C16_unsync_iter_exact.
Print Assumptions C16_sync_iter_exact.
Print Assumptions C16_unsync_iter_justified.
Print Assumptions C16_sync_iter_justified.
Print Assumptions C16_unsync_iter_pure.
Print Assumptions C16_sync_iter_pure.
Print Assumptions C16_unsync_iter_shows_last_insert.
Print Assumptions C16_sync_iter_shows_last_insert.
