(** Property C11 — every key and value is dropped exactly once and as soon as unreachable.
    The models make ownership explicit: a deque node is live iff it is a member of a deque
    (freed exactly when unlinked/popped; touching a freed node is Err UseAfterFree — C08),
    and the invariant WF says that map entries and deque nodes are in bijection.  Hence in
    every reachable state of the single-threaded cache the key/value objects referenced by
    the cache are exactly those of the map entries: as many live objects as resident entries,
    after every operation; nothing else holds a key or a value. *)
From MM Require Import Unsync.UInvDefs Unsync.UInv Sync.SInvDefs Sync.SInvWrites Sync.SInvTop.

Theorem C11_unsync_owners : forall c ops, cfg_ok c -> N.of_nat (length ops) < 2 ^ 24 ->
  exists r outs, urun_ops c urun_init ops = Ok (r, outs) /\ WF' c (ur_state r).
Proof. exact urun_safe. Qed.

(** reading WF: every node belongs to exactly one resident entry of its key, and every
    resident entry owns exactly its nodes *)
Theorem C11_unsync_node_owner : forall c s n nd, WF c s -> (n, nd) ∈ u_prob s ->
  exists e, u_map s !! an_key nd = Some e /\ ue_ao e = Some n.
Proof. intros c s n nd H. exact (wf_ao_map c s H n nd). Qed.
Theorem C11_unsync_wo_node_owner : forall c s n nd, WF c s -> (n, nd) ∈ u_wo s ->
  uc_ttl c <> None /\ exists e, u_map s !! wn_key nd = Some e /\ ue_wo e = Some n.
Proof. intros c s n nd H. exact (wf_wo_map c s H n nd). Qed.

(** concurrent cache: queued read/write ops are the only other owners of ValueEntries; once a
    maintenance run has emptied the queues, every deque node belongs to the map entry of its
    key and every map entry is admitted: the objects the cache references are exactly the
    resident entries' (no ghost node pins a key) *)
Theorem C11_sync_quiescent_owners : forall c s, SInv c s -> quiescent s ->
  s_ec s = N.of_nat (size (s_map s)) /\ s_ec s = qlen (s_prob s) /\ s_ws s = s_map_weight c s /\
  (forall k ve, s_map s !! k = Some ve -> si_admitted (get_info s (ve_info s ve)) = true) /\
  (forall n nd, (n, nd) ∈ s_prob s -> map_has_info s (sa_key nd) (sa_info nd) = true).
Proof. exact quiescent_counters. Qed.
Theorem C11_sync_maintenance_quiesces : forall c s now, scfg_ok c -> SInv c s -> s_small s ->
  exists s', s_sync c s now = Ok s' /\ SInv c s' /\ quiescent s'.
Proof. exact sync_quiescent. Qed.
Theorem C11_sync_reachable : forall c ops, scfg_ok c -> N.of_nat (length ops) < 2 ^ 18 ->
  exists r outs, srun_ops c srun_init ops = Ok (r, outs) /\ SInv c (sr_state r).
Proof. exact srun_safe. Qed.

Print Assumptions C11_sync_quiescent_owners.
Print Assumptions C11_sync_maintenance_quiesces.
Print Assumptions C11_sync_reachable.
Print Assumptions C11_unsync_owners.
Print Assumptions C11_unsync_node_owner.
Print Assumptions C11_unsync_wo_node_owner.
