(** Property C02 — concurrent cache: per-key coherence under every thread interleaving.
    Conc/Cell.v models the hash map as seen through the cache API: insert performs exactly
    one atomic upsert of its key's cell, invalidate one atomic removal, get one atomic
    read (and may additionally hide what it read: expiry), and maintenance may remove any
    cell at any time (CEnv).  A trace is ANY list of such actions of ANY number of threads in
    the order they take effect — every interleaving is a trace.  [cell_run ∅ tr = Some m]
    says the trace is a behaviour of the map (reads return nothing or the current cell).
    PARTIAL: sequential consistency of the atomics and DashMap's per-key linearisability are
    assumed; the tie to the code is the controlled-scheduler replay: the map actions the real
    cache performs, ordered by the switch-point step at which they took effect, must be
    accepted by [cell_accepts] (extracted), and an interval-based coherence oracle that does
    not depend on the hooks is evaluated on the same runs and on uncontrolled stress runs. *)
From MM Require Import Base.Prelude Conc.Cell.

(** a get returns nothing or the value of the LATEST write action on its key: never a value
    superseded by a later insert, never one removed by an invalidate / by maintenance, never a phantom *)
Theorem C02_read_latest : forall tr m i t k v,
  cell_run ∅ tr = Some m -> tr !! i = Some (CRead t k (Some v)) ->
  exists j t', (j < i)%nat /\ tr !! j = Some (CWrite t' k v) /\
    forall n a, (j < n < i)%nat -> tr !! n = Some a -> ~ touches k a.
Proof. exact cell_read_latest. Qed.

(** the values threads observe for a key never go backwards in the order the writes took effect *)
Theorem C02_reads_monotone : forall tr m k i1 i2 t1 t2 v1 v2 j1 j2,
  cell_run ∅ tr = Some m -> (i1 < i2)%nat ->
  tr !! i1 = Some (CRead t1 k (Some v1)) -> tr !! i2 = Some (CRead t2 k (Some v2)) ->
  last_touch k tr i1 = Some j1 -> last_touch k tr i2 = Some j2 ->
  (j1 <= j2)%nat /\ (exists t, tr !! j1 = Some (CWrite t k v1)) /\
  (exists t, tr !! j2 = Some (CWrite t k v2)) /\ (j1 = j2 -> v1 = v2).
Proof. exact cell_read_monotone. Qed.

(** after all threads stop the map holds for each key nothing or the last value written *)
Theorem C02_final_state : forall tr m k,
  cell_run ∅ tr = Some m ->
  (m !! k = None /\
   (last_touch k tr (length tr) = None \/
    exists j, last_touch k tr (length tr) = Some j /\
      ((exists t, tr !! j = Some (CRemove t k)) \/ tr !! j = Some (CEnv k)))) \/
  (exists v j t, m !! k = Some v /\ last_touch k tr (length tr) = Some j /\ tr !! j = Some (CWrite t k v)).
Proof. exact cell_final. Qed.

(** maintenance can only remove: inserting an eviction anywhere keeps the trace a behaviour
    (successful gets of that key become misses) and changes nothing for other keys *)
Theorem C02_maintenance_only_removes : forall k tr1 tr2 m,
  cell_run ∅ (tr1 ++ tr2) = Some m ->
  exists m', cell_run ∅ (tr1 ++ CEnv k :: weaken k tr2) = Some m' /\
             forall k', k' <> k -> m !! k' = m' !! k'.
Proof. exact cell_env_only_removes. Qed.

Print Assumptions C02_read_latest.
Print Assumptions C02_reads_monotone.
Print Assumptions C02_final_state.
Print Assumptions C02_maintenance_only_removes.
