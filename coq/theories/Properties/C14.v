(** Property C14 — popularity estimator: bounded, never underestimates, ages by halving.
    This file contains only the property theorems (closed by [exact]), statement pins
    and assumption printing.  Model: Sketch/SketchModel.v (bit-level, tied to
    src/common/frequency_sketch.rs by the `sketch` lock-step correspondence and by the
    regenerated constants of Gen/Consts.v).  Proofs: Sketch/SketchProofs.v. *)
From MM Require Import Sketch.SketchSpec Sketch.SketchProofs Unsync.UInvDefs Unsync.UInv Sync.SModel Sync.SProvenance.

(** (1) The estimate of any key is at most 15 — any sketch state at all. *)
Theorem C14_bounded : forall sk h, frequency sk h <= 15.
Proof. exact frequency_le_15. Qed.

(** (2) A freshly sized sketch (what the caches build) is well formed, for every
    capacity incl. 0 and non powers of two; its table is never empty. *)
Theorem C14_fresh_wf : forall cap, sk_wf (SketchSpec.fresh cap) /\ 0 < sk_tlen (SketchSpec.fresh cap).
Proof. exact fresh_wf. Qed.

(** (3) Table indices stay inside the table. *)
Theorem C14_index_in_table :
  forall sk h d, sk_wf sk -> 0 < sk_tlen sk -> index_of sk h d < sk_tlen sk.
Proof. exact index_of_lt. Qed.

(** (4) Recording a lookup never fails (no overflow, no out-of-bounds) and keeps the
    sketch well formed and its geometry unchanged.  The table-length hypothesis is
    the u32 odd-counter accumulator of `reset` (see DESIGN.md section 2). *)
Theorem C14_increment_ok :
  forall sk h, sk_wf sk -> sk_tlen sk < 2 ^ 28 ->
  exists sk', increment sk h = Ok sk' /\ sk_wf sk' /\
              sk_tlen sk' = sk_tlen sk /\ sk_mask sk' = sk_mask sk /\
              sk_sample sk' = sk_sample sk.
Proof. exact increment_ok. Qed.

(** (5) Never underestimates: after any sequence of recorded lookups, the estimate of
    [h] is at least the reference count (saturating at 15, floor-halved by every
    aging step). *)
Theorem C14_never_underestimates :
  forall cap hs h sk,
    incr_all (SketchSpec.fresh cap) hs = Ok sk ->
    ref_count (SketchSpec.fresh cap) h 0 hs <= frequency sk h.
Proof. exact freq_ge_ref_count. Qed.

(** (6) ... and equals it when some counter of [h] is shared with no other recorded key. *)
Theorem C14_exact_without_collision :
  forall cap hs h sk,
    has_private_counter (SketchSpec.fresh cap) h hs ->
    incr_all (SketchSpec.fresh cap) hs = Ok sk ->
    frequency sk h = ref_count (SketchSpec.fresh cap) h 0 hs.
Proof. exact freq_eq_ref_count. Qed.

(** (7) Recording any key never lowers any estimate, except through an aging step. *)
Theorem C14_recording_never_lowers :
  forall sk h' sk', sk_wf sk -> increment sk h' = Ok sk' -> aged sk h' = false ->
  forall h, frequency sk h <= frequency sk' h.
Proof. exact increment_no_age_mono. Qed.

(** (8) An aging step floor-halves every estimate at once. *)
Theorem C14_aging_halves_all :
  forall sk sk', reset sk = Ok sk' -> forall h, frequency sk' h = frequency sk h / 2.
Proof. exact reset_halves_frequency. Qed.

(** (8') ... and [increment] ages exactly when [aged] says so: it is the un-aged
    recording followed by [reset]. *)
Theorem C14_increment_aged :
  forall sk h, sk_wf sk -> 0 < sk_tlen sk -> aged sk h = true ->
  exists mid, increment sk h = reset mid /\
              (forall h0, frequency sk h0 <= frequency mid h0).
Proof. exact increment_aged_is_reset. Qed.

(** (9) Only get calls are ever recorded — single-threaded cache: a get (hit or miss) records
    exactly one lookup of its key's hash; insert can only ENABLE the sketch (ensure_capacity on
    the not yet enabled sketch), never record; contains_key, invalidate, invalidate_entries_if,
    invalidate_all leave the sketch untouched; iteration leaves the whole state untouched.
    (Concurrent cache: Sync/SProvenance.v.) *)
Theorem C14_unsync_get_records_once : forall c s now k s' v,
  cfg_ok c -> WF' c s -> small s -> u_get c s now k = Ok (s', v) ->
  u_skon s' = u_skon s /\ exists sk1, increment (u_sk s) (uc_hash c k) = Ok sk1 /\ u_sk s' = sk1.
Proof. exact u_get_sketch. Qed.
Theorem C14_unsync_insert_never_records : forall c s now k v s',
  cfg_ok c -> WF' c s -> small s -> u_insert c s now k v = Ok s' ->
  u_sk s' = u_sk s \/
  (u_skon s = false /\ u_skon s' = true /\ exists cap, u_sk s' = ensure_capacity (u_sk s) cap).
Proof. exact u_insert_sketch. Qed.
Theorem C14_unsync_contains_never_records : forall c s now k s' b,
  cfg_ok c -> WF' c s -> small s -> u_contains c s now k = Ok (s', b) ->
  u_sk s' = u_sk s /\ u_skon s' = u_skon s.
Proof. exact u_contains_sketch. Qed.
Theorem C14_unsync_invalidate_never_records : forall c s now k s',
  cfg_ok c -> WF' c s -> small s -> u_invalidate c s now k = Ok s' ->
  u_sk s' = u_sk s /\ u_skon s' = u_skon s.
Proof. exact u_invalidate_sketch. Qed.
Theorem C14_unsync_invalidate_if_never_records : forall c s p s',
  cfg_ok c -> WF' c s -> small s -> u_invalidate_if s p = Ok s' ->
  u_sk s' = u_sk s /\ u_skon s' = u_skon s.
Proof. exact u_invalidate_if_sketch. Qed.
Theorem C14_unsync_invalidate_all_never_records : forall s,
  u_sk (u_invalidate_all s) = u_sk s /\ u_skon (u_invalidate_all s) = u_skon s.
Proof. exact u_invalidate_all_sketch. Qed.

(** (10) Only get calls are ever recorded — concurrent cache (sequential regime; conditional on the
    step returning Ok, which C08 shows): the read-op queue grows only in get, by at most one op
    carrying the hash of the looked-up key (hit or miss); every other operation, and maintenance,
    only CONSUMES queued reads, and the sketch evolves exactly by one [increment] per consumed
    read, in queue order, possibly being enabled ([ensure_capacity]) on the way; contains_key and
    iteration do not touch the state at all *)
Theorem C14_sync_get_records_once : forall c r k r' out,
  sstep c r (SGet k) = Ok (r', out) ->
  exists n, (s_rq (sr_state r') = drop n (s_rq (sr_state r)) \/
             exists o, s_rq (sr_state r') = drop n (s_rq (sr_state r)) ++ [o] /\ rop_hash o = sc_hash c k) /\
            sk_evolves (s_sk (sr_state r)) (s_skon (sr_state r)) (rop_hash <$> take n (s_rq (sr_state r)))
                       (s_sk (sr_state r')) (s_skon (sr_state r')).
Proof. exact sstep_get_records_once. Qed.
Theorem C14_sync_others_record_nothing : forall c r o r' out,
  (forall k, o <> SGet k) -> sstep c r o = Ok (r', out) -> reads_consumed (sr_state r) (sr_state r').
Proof. exact sstep_records_nothing. Qed.
Theorem C14_sync_maintenance_only_consumes : forall c s now s', s_sync c s now = Ok s' -> reads_consumed s s'.
Proof. exact s_sync_reads_consumed. Qed.
Theorem C14_sync_contains_iter_touch_nothing : forall c r o r' out,
  (o = SIter \/ exists k, o = SContains k) -> sstep c r o = Ok (r', out) -> r' = r.
Proof. exact contains_iter_touch_nothing. Qed.

Check C14_bounded : forall sk h, frequency sk h <= 15.
Check C14_never_underestimates :
  forall cap hs h sk, incr_all (SketchSpec.fresh cap) hs = Ok sk ->
    ref_count (SketchSpec.fresh cap) h 0 hs <= frequency sk h.

Print Assumptions C14_sync_get_records_once.
Print Assumptions C14_sync_others_record_nothing.
Print Assumptions C14_sync_maintenance_only_consumes.
Print Assumptions C14_sync_contains_iter_touch_nothing.
Print Assumptions C14_unsync_get_records_once.
Print Assumptions C14_unsync_insert_never_records.
Print Assumptions C14_unsync_contains_never_records.
Print Assumptions C14_unsync_invalidate_never_records.
Print Assumptions C14_unsync_invalidate_if_never_records.
Print Assumptions C14_unsync_invalidate_all_never_records.
Print Assumptions C14_bounded.
Print Assumptions C14_fresh_wf.
Print Assumptions C14_index_in_table.
Print Assumptions C14_increment_ok.
Print Assumptions C14_never_underestimates.
Print Assumptions C14_exact_without_collision.
Print Assumptions C14_recording_never_lowers.
Print Assumptions C14_aging_halves_all.
Print Assumptions C14_increment_aged.
