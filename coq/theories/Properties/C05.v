(** Property C05 — time-to-live: no entry is observable at or after insert time + ttl.
    The trace theorems are those of C01 ([justified] contains the TTL clause); this file
    spells out the TTL reading. *)
From MM Require Import Contract.Trace Contract.UnsyncTrace Contract.SyncTrace Contract.Glue
  Spec.HistoryFacts Unsync.UInvDefs.

Theorem C05_unsync : forall c ops, cfg_ok c -> N.of_nat (length ops) < 2 ^ 24 ->
  u_trace_ok c ∅ urun_init ops.
Proof. exact u_trace_ok_all. Qed.

Theorem C05_sync : forall c ops, s_trace_ok c ∅ srun_init ops.
Proof. exact s_trace_ok_all. Qed.

(** with time_to_live = d, a justified answer at clock reading [now] has now < insert time + d,
    for every d including 0 *)
Theorem C05_justified_within_ttl : forall d tti now r k v,
  justified (Some d) tti now r k v -> exists c, r !! k = Some c /\ now < rc_ins c + d.
Proof. exact justified_ttl. Qed.

(** an update restarts the interval: the reference insert time becomes the update's reading *)
Theorem C05_update_restarts : forall f now r k v,
  rstep f now r (AInsert k v) !! k = Some (mkRC v now now).
Proof. exact rstep_insert. Qed.
(** ... and nothing else does: a successful get keeps the insert time *)
Theorem C05_get_keeps_insert_time : forall f now r k v c,
  r !! k = Some c -> rstep f now r (AGet k (Some v)) !! k = Some (mkRC (rc_val c) (rc_ins c) now).
Proof. exact rstep_get_hit. Qed.

Check C05_justified_within_ttl : forall d tti now r k v,
  justified (Some d) tti now r k v -> exists c, r !! k = Some c /\ now < rc_ins c + d.
Print Assumptions C05_unsync.
Print Assumptions C05_sync.
Print Assumptions C05_justified_within_ttl.
Print Assumptions C05_update_restarts.
Print Assumptions C05_get_keeps_insert_time.
