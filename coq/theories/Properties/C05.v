(** Property C05 — time-to-live: no entry is observable at or after insert time + ttl.
    The trace theorems are those of C01 ([justified] contains the TTL clause); this file
    spells out the TTL reading. *)
From MM Require Import Contract.Trace Contract.UnsyncTrace Contract.SyncTrace Contract.Glue Contract.Deadline
  Spec.HistoryFacts Unsync.UInvDefs.

Theorem C05_unsync : forall c ops, cfg_ok c -> N.of_nat (length ops) < 2 ^ 24 ->
  u_trace_ok c ∅ urun_init ops.
Proof. exact u_trace_ok_all. Qed.

Theorem C05_sync : forall c ops, s_trace_ok c ∅ srun_init ops.
Proof. exact s_trace_ok_all. Qed.

(** with time_to_live = d, a justified answer at clock reading [now] has now < insert time + d,
    for every d including 0 *)
Theorem C05_justified_within_ttl : forall d tti now r k v,
  justified (Some d) tti now r k v -> exists c, r !! k = Some c /\ now < rc_ins c + d.
Proof. exact justified_ttl. Qed.

(** an update restarts the interval: the reference insert time becomes the update's reading *)
Theorem C05_update_restarts : forall f now r k v,
  rstep f now r (AInsert k v) !! k = Some (mkRC v now now).
Proof. exact rstep_insert. Qed.
(** ... and nothing else does: a successful get keeps the insert time *)
Theorem C05_get_keeps_insert_time : forall f now r k v c,
  r !! k = Some c -> rstep f now r (AGet k (Some v)) !! k = Some (mkRC (rc_val c) (rc_ins c) now).
Proof. exact rstep_get_hit. Qed.

(** end to end, for EVERY history: a lookup issued at or after the deadline of the key's
    reference cell shows nothing for the key — get, contains_key and iteration alike, on both
    caches, whatever maintenance ran in between ([past_deadline] = insert time + ttl <= now or
    last access + tti <= now; the C05 disjunct is the one this property is about) *)
Theorem C05_deadline_reached : forall (tti : option N) d now (c : rcell),
  rc_ins c + d <= now -> past_deadline (Some d) tti now c.
Proof. intros; left; eauto. Qed.
Theorem C05_unsync_get_past_deadline : forall c ops k r run rc run' res,
  cfg_ok c -> N.of_nat (length (ops ++ [UGet k])) < 2 ^ 24 ->
  u_ref_after c ∅ urun_init ops = Some (r, run) ->
  r !! k = Some rc -> past_deadline (uc_ttl c) (uc_tti c) (ur_now run) rc ->
  ustep c run (UGet k) = Ok (run', OVal res) -> res = None.
Proof. exact u_get_past_deadline. Qed.
Theorem C05_unsync_contains_past_deadline : forall c ops k r run rc run' b,
  cfg_ok c -> N.of_nat (length (ops ++ [UContains k])) < 2 ^ 24 ->
  u_ref_after c ∅ urun_init ops = Some (r, run) ->
  r !! k = Some rc -> past_deadline (uc_ttl c) (uc_tti c) (ur_now run) rc ->
  ustep c run (UContains k) = Ok (run', OBool b) -> b = false.
Proof. exact u_contains_past_deadline. Qed.
Theorem C05_unsync_iter_past_deadline : forall c ops k r run rc run' l,
  cfg_ok c -> N.of_nat (length (ops ++ [UIter])) < 2 ^ 24 ->
  u_ref_after c ∅ urun_init ops = Some (r, run) ->
  r !! k = Some rc -> past_deadline (uc_ttl c) (uc_tti c) (ur_now run) rc ->
  ustep c run UIter = Ok (run', OList l) -> forall v, (k, v) ∉ l.
Proof. exact u_iter_past_deadline. Qed.
Theorem C05_sync_get_past_deadline : forall c ops k r run rc run' res,
  s_ref_after c ∅ srun_init ops = Some (r, run) ->
  r !! k = Some rc -> past_deadline (sc_ttl c) (sc_tti c) (sr_now run) rc ->
  sstep c run (SGet k) = Ok (run', SOVal res) -> res = None.
Proof. exact s_get_past_deadline. Qed.
Theorem C05_sync_contains_past_deadline : forall c ops k r run rc run' b,
  s_ref_after c ∅ srun_init ops = Some (r, run) ->
  r !! k = Some rc -> past_deadline (sc_ttl c) (sc_tti c) (sr_now run) rc ->
  sstep c run (SContains k) = Ok (run', SOBool b) -> b = false.
Proof. exact s_contains_past_deadline. Qed.
Theorem C05_sync_iter_past_deadline : forall c ops k r run rc run' l,
  s_ref_after c ∅ srun_init ops = Some (r, run) ->
  r !! k = Some rc -> past_deadline (sc_ttl c) (sc_tti c) (sr_now run) rc ->
  sstep c run SIter = Ok (run', SOList l) -> forall v, (k, v) ∉ l.
Proof. exact s_iter_past_deadline. Qed.

Check C05_justified_within_ttl : forall d tti now r k v,
  justified (Some d) tti now r k v -> exists c, r !! k = Some c /\ now < rc_ins c + d.
Print Assumptions C05_unsync.
Print Assumptions C05_sync.
Print Assumptions C05_justified_within_ttl.
Print Assumptions C05_update_restarts.
Print Assumptions C05_get_keeps_insert_time.
Print Assumptions C05_deadline_reached.
Print Assumptions C05_unsync_get_past_deadline.
Print Assumptions C05_unsync_contains_past_deadline.
Print Assumptions C05_unsync_iter_past_deadline.
Print Assumptions C05_sync_get_past_deadline.
Print Assumptions C05_sync_contains_past_deadline.
Print Assumptions C05_sync_iter_past_deadline.
