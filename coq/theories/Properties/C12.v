(** Property C12 — victims are always the least recently used residents, and only as many as needed.
    Single-threaded cache (all well-formed states, configurations, weights): size eviction
    removes a PREFIX of the LRU order — the shortest one covering the excess, or a whole
    maintenance batch; admission victims are the shortest LRU prefix whose weight reaches the
    newcomer's (C13_unsync_admission: [p.*1.*1 = take (length p) (lru_keys s1)]); and the LRU
    order is the recency order of the history: insert, update and successful get move the key
    to the most-recently-used end, nothing else reorders. *)
From MM Require Import Unsync.UInvDefs Unsync.UInv Unsync.UPolicyDefs Unsync.UPolicy Sync.SInvDefs Sync.SPolicyDefs Sync.SPolicy Sync.SRecency Sync.SEndToEnd.

Theorem C12_unsync_eviction_is_shortest_lru_prefix : forall c s s',
  cfg_ok c -> WF' c s -> small s -> evict_lru_entries c s = Ok s' ->
  exists n, lru_keys s' = drop n (lru_keys s) /\
            view s' = delete_keys (take n (lru_keys s)) (view s) /\
            u_ws s' + sum_w (take n (lru_triples c s)) = u_ws s /\
            (n = 0%nat \/ sum_w (take (n - 1) (lru_triples c s)) < over c s) /\
            (over c s <= sum_w (take n (lru_triples c s)) \/ n = N.to_nat U_EVICTION_BATCH_SIZE \/ n = length (lru_keys s)).
Proof. exact evict_lru_prefix. Qed.

Theorem C12_unsync_admission_victims_are_lru_prefix : forall c s now k v s1 ts s',
  cfg_ok c -> WF' c s -> small s ->
  maintain c s now = Ok (s1, ts) -> u_map s1 !! k = None ->
  has_enough_capacity c (weigh c k v) (u_ws s1) = Ok false ->
  (forall cap, uc_cap c = Some cap -> weigh c k v <= cap) ->
  u_insert c s now k v = Ok s' ->
  match tinylfu_victims (lru_triples c s1) (weigh c k v) (frequency (u_sk s1) (uc_hash c k)) with
  | Some p =>
      view s' = <[k := v]> (delete_keys (p.*1.*1) (view s1)) /\
      lru_keys s' = drop (length p) (lru_keys s1) ++ [k] /\
      p.*1.*1 = take (length p) (lru_keys s1)
  | None =>
      view s' = view s1 /\ u_prob s' = u_prob s1 /\ u_wo s' = u_wo s1 /\ u_ws s' = u_ws s1
  end.
Proof. exact u_insert_admission. Qed.

(** recency: what each operation does to the LRU order *)
Theorem C12_unsync_get_recency : forall c s now k s1 ts s' res,
  cfg_ok c -> WF' c s -> small s -> maintain c s now = Ok (s1, ts) -> u_get c s now k = Ok (s', res) ->
  view s' = view s1 /\
  match res with
  | Some _ => lru_keys s' = List.filter (fun x => negb (x =? k)) (lru_keys s1) ++ [k]
  | None => lru_keys s' = lru_keys s1
  end.
Proof. exact u_get_recency. Qed.
Theorem C12_unsync_update_recency : forall c s now k v s1 ts s' e,
  cfg_ok c -> WF' c s -> small s ->
  maintain c s now = Ok (s1, ts) -> u_map s1 !! k = Some e ->
  u_insert c s now k v = Ok s' ->
  view s' = <[k := v]> (view s1) /\
  lru_keys s' = List.filter (fun x => negb (x =? k)) (lru_keys s1) ++ [k] /\
  u_ws s' + ue_weight e = u_ws s1 + weigh c k v.
Proof. exact u_insert_update. Qed.
Theorem C12_unsync_fresh_insert_recency : forall c s now k v s1 ts s',
  cfg_ok c -> WF' c s -> small s ->
  maintain c s now = Ok (s1, ts) -> u_map s1 !! k = None ->
  has_enough_capacity c (weigh c k v) (u_ws s1) = Ok true ->
  u_insert c s now k v = Ok s' ->
  view s' = <[k := v]> (view s1) /\ lru_keys s' = lru_keys s1 ++ [k] /\ u_ws s' = u_ws s1 + weigh c k v.
Proof. exact u_insert_fits. Qed.
(** maintenance, contains_key and invalidation never reorder what they leave *)
Theorem C12_unsync_maintenance_keeps_order : forall c s now s1 ts,
  cfg_ok c -> WF' c s -> small s -> maintain c s now = Ok (s1, ts) ->
  u_map s1 ⊆ u_map s /\ u_sk s1 = u_sk s /\ u_skon s1 = u_skon s /\
  sublist (u_prob s1) (u_prob s) /\ sublist (u_wo s1) (u_wo s).
Proof. exact maintain_subset. Qed.
Theorem C12_unsync_invalidate_keeps_order : forall c s now k s1 ts s',
  cfg_ok c -> WF' c s -> small s -> maintain c s now = Ok (s1, ts) -> u_invalidate c s now k = Ok s' ->
  view s' = delete k (view s1) /\ lru_keys s' = List.filter (fun x => negb (x =? k)) (lru_keys s1).
Proof. exact u_invalidate_exact. Qed.

(** concurrent cache (maintenance after every operation): size eviction of a maintenance run on a
    state with nothing queued removes the shortest LRU prefix covering the excess (or a batch);
    admission victims of a pending fresh insert are the shortest LRU prefix reaching its weight *)
Theorem C12_sync_eviction_is_shortest_lru_prefix : forall c s to_evict s',
  scfg_ok c -> SInv c s -> quiescent s ->
  s_evict_lru_loop batch_s s to_evict 0 = Ok s' ->
  exists n, s_lru_keys s' = drop n (s_lru_keys s) /\
            s_view s' = delete_keys (take n (s_lru_keys s)) (s_view s) /\
            s_ws s' + sum_w (take n (s_lru_triples s)) = s_ws s /\
            (n = 0%nat \/ sum_w (take (n - 1) (s_lru_triples s)) < to_evict) /\
            (to_evict <= sum_w (take n (s_lru_triples s)) \/ n = batch_s \/ n = length (s_lru_keys s)).
Proof. exact s_evict_lru_prefix. Qed.
Theorem C12_sync_admission_victims_are_lru_prefix : forall c s k ve w s',
  scfg_ok c -> SInv c s -> s_small s -> pending_insert c s k ve w ->
  apply_writes c s 1 = Ok s' ->
  SInv c s' /\ quiescent s' /\
  match sc_cap c with
  | None =>
      s_view s' = s_view s /\ s_lru_keys s' = s_lru_keys s ++ [k] /\ s_ws s' = s_ws s + w
  | Some cap =>
    if s_ws s + w <=? cap then
      s_view s' = s_view s /\ s_lru_keys s' = s_lru_keys s ++ [k] /\ s_ws s' = s_ws s + w
    else if cap <? w then
      s_view s' = delete k (s_view s) /\ s_prob s' = s_prob s /\ s_wo s' = s_wo s /\ s_ws s' = s_ws s
    else match tinylfu_victims (s_lru_triples s) w (frequency (s_sk s) (sc_hash c k)) with
         | Some p =>
             s_view s' = delete_keys (p.*1.*1) (s_view s) /\
             s_lru_keys s' = drop (length p) (s_lru_keys s) ++ [k] /\
             p.*1.*1 = take (length p) (s_lru_keys s) /\
             s_ws s' + sum_w p = s_ws s + w
         | None =>
             s_view s' = delete k (s_view s) /\ s_prob s' = s_prob s /\ s_wo s' = s_wo s /\ s_ws s' = s_ws s
         end
  end.
Proof. exact s_pending_insert_outcome. Qed.

(** concurrent cache, the other half of "least recently used": the order in which maintenance applies
    the recorded reads and writes IS the LRU order.  An applied hit, and an applied update, of an
    admitted entry move its key to the most-recently-used end and change nothing else of the order
    (nor the contents, nor the counters); a recorded miss, or a hit of an entry that is not admitted
    yet, does not touch the order; and for any number of queued reads the node order afterwards is
    the fold of "move to the MRU end" over the hits of admitted entries, in queue order. *)
Theorem C12_sync_applied_hit_moves_to_mru : forall c s k h ve ts s',
  scfg_ok c -> SInv c s -> s_small s -> pending_hit s k h ve ts ->
  apply_reads s 1 = Ok s' ->
  SInv c s' /\ quiescent s' /\
  s_lru_keys s' = touch k (s_lru_keys s) /\ k ∈ s_lru_keys s /\
  s_view s' = s_view s /\ s_ws s' = s_ws s /\ s_ec s' = s_ec s /\ s_wo s' = s_wo s /\
  si_la (get_info s' (ve_info s' ve)) = N.max (si_la (get_info s (ve_info s ve))) ts.
Proof. exact s_pending_hit_outcome. Qed.

Theorem C12_sync_applied_update_moves_to_mru : forall c s k ve ow nw s',
  scfg_ok c -> SInv c s -> s_small s -> pending_update c s k ve ow nw ->
  apply_writes c s 1 = Ok s' ->
  SInv c s' /\ quiescent s' /\
  s_lru_keys s' = touch k (s_lru_keys s) /\ k ∈ s_lru_keys s /\
  s_view s' = s_view s /\ s_ec s' = s_ec s /\
  s_ws s' + si_weight (get_info s (ve_info s ve)) = s_ws s + nw /\
  si_weight (get_info s' (ve_info s' ve)) = nw.
Proof. exact s_pending_update_outcome. Qed.

Theorem C12_sync_applied_miss_keeps_order : forall c s h s',
  scfg_ok c -> SInv c s -> s_small s -> s_wq s = [] -> s_rq s = [RMiss h] ->
  apply_reads s 1 = Ok s' ->
  SInv c s' /\ quiescent s' /\ s_prob s' = s_prob s /\ s_wo s' = s_wo s /\
  s_view s' = s_view s /\ s_ws s' = s_ws s /\ s_ec s' = s_ec s.
Proof. exact s_pending_miss_outcome. Qed.

Theorem C12_sync_unadmitted_hit_keeps_order : forall c s h ve ts s',
  scfg_ok c -> SInv c s -> s_small s -> s_rq s = [RHit h ve ts] ->
  si_admitted (get_info s (ve_info s ve)) = false ->
  apply_reads s 1 = Ok s' ->
  SInv c s' /\ s_rq s' = [] /\ s_wq s' = s_wq s /\ s_prob s' = s_prob s /\ s_wo s' = s_wo s /\
  s_view s' = s_view s /\ s_ws s' = s_ws s /\ s_ec s' = s_ec s /\
  si_la (get_info s' (ve_info s' ve)) = N.max (si_la (get_info s (ve_info s ve))) ts.
Proof. exact s_pending_cold_hit_outcome. Qed.

Theorem C12_sync_applied_reads_recency : forall c s n s',
  scfg_ok c -> SInv c s -> s_small s -> apply_reads s n = Ok s' ->
  (s_prob s').*1 = foldl (fun l o => match read_target s o with Some nid => touch_id nid l | None => l end)
                         (s_prob s).*1 (take n (s_rq s)) /\
  (forall nid nd, (nid, nd) ∈ s_prob s' <-> (nid, nd) ∈ s_prob s).
Proof. exact apply_reads_recency. Qed.

(** OPERATION LEVEL, concurrent cache with maintenance after every operation (Sync/SEndToEnd.v): the
    operation and the maintenance run that follows it, composed, in BOTH housekeeping regimes, stated on
    the quiescent state before the operation (no expiry configured, no invalidate_all cut-off pending). *)
Theorem C12_sync_get_then_maintenance : forall c r k r1 v r2 o2,
  let s := sr_state r in let s' := sr_state r2 in
  scfg_ok c -> SInv c s -> s_small s -> quiescent s -> noexp c s -> within c s ->
  sstep c r (SGet k) = Ok (r1, SOVal (Some v)) -> sstep c r1 SSync = Ok (r2, o2) ->
  SInv c s' /\ quiescent s' /\ s_view s !! k = Some v /\
  s_view s' = s_view s /\ s_lru_keys s' = touch k (s_lru_keys s) /\ s_ws s' = s_ws s.
Proof. exact s_get_sync_outcome. Qed.

Theorem C12_sync_miss_then_maintenance : forall c r k r1 r2 o2,
  let s := sr_state r in let s' := sr_state r2 in
  scfg_ok c -> SInv c s -> s_small s -> quiescent s -> noexp c s -> within c s ->
  sstep c r (SGet k) = Ok (r1, SOVal None) -> sstep c r1 SSync = Ok (r2, o2) ->
  SInv c s' /\ quiescent s' /\ s_view s !! k = None /\
  s_view s' = s_view s /\ s_lru_keys s' = s_lru_keys s /\ s_ws s' = s_ws s.
Proof. exact s_miss_sync_outcome. Qed.

Theorem C12_sync_update_then_maintenance : forall c r k v v0 r1 o1 r2 o2,
  let s := sr_state r in let s' := sr_state r2 in let w := sweigh c k v in
  scfg_ok c -> SInv c s -> s_small s -> s_next s + 1 < 2 ^ 31 ->
  quiescent s -> noexp c s -> within c s ->
  s_view s !! k = Some v0 ->
  sstep c r (SInsert k v) = Ok (r1, o1) -> sstep c r1 SSync = Ok (r2, o2) ->
  SInv c s' /\ quiescent s' /\
  let order := touch k (s_lru_keys s) in
  let m := <[k := v]> (s_view s) in
  let total := s_ws s + w - sweigh c k v0 in
  let excess := match sc_cap c with Some cap => total - cap | None => 0 end in
  k ∈ s_lru_keys s /\ sweigh c k v0 <= s_ws s /\
  exists n,
    s_lru_keys s' = drop n order /\
    s_view s' = delete_keys (take n order) m /\
    s_ws s' + keys_weight c m (take n order) = total /\
    (n = 0%nat \/ keys_weight c m (take (n - 1) order) < excess) /\
    (excess <= keys_weight c m (take n order) \/ n = batch_s \/ n = length order) /\
    (n = 0%nat <-> excess = 0) /\
    (within c s' \/ n = batch_s).
Proof. exact s_update_sync_outcome. Qed.

Print Assumptions C12_sync_get_then_maintenance.
Print Assumptions C12_sync_miss_then_maintenance.
Print Assumptions C12_sync_update_then_maintenance.
Print Assumptions C12_sync_applied_hit_moves_to_mru.
Print Assumptions C12_sync_applied_update_moves_to_mru.
Print Assumptions C12_sync_applied_miss_keeps_order.
Print Assumptions C12_sync_unadmitted_hit_keeps_order.
Print Assumptions C12_sync_applied_reads_recency.
Print Assumptions C12_sync_eviction_is_shortest_lru_prefix.
Print Assumptions C12_sync_admission_victims_are_lru_prefix.
Print Assumptions C12_unsync_eviction_is_shortest_lru_prefix.
Print Assumptions C12_unsync_admission_victims_are_lru_prefix.
Print Assumptions C12_unsync_get_recency.
Print Assumptions C12_unsync_update_recency.
Print Assumptions C12_unsync_fresh_insert_recency.
Print Assumptions C12_unsync_maintenance_keeps_order.
Print Assumptions C12_unsync_invalidate_keeps_order.
