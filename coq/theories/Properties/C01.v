(** Property C01 — lookups return only the latest live value for a key.
    Only property theorems (closed by [exact]), statement pins, Print Assumptions.
    [u_trace_ok]/[s_trace_ok] (Contract/Trace.v) run the cache model and the history-level
    reference state (Spec/History.v: for every key the most recent insert not invalidated
    since) side by side and assert that EVERY answer of get / contains_key / iteration in
    the run is [justified] by the reference state before that step.  All configurations,
    hashers, weighers, clock patterns and placements of sync() are inside the quantifier. *)
From MM Require Import Contract.Trace Contract.UnsyncTrace Contract.SyncTrace Contract.Glue
  Spec.HistoryFacts Unsync.UInvDefs.

Theorem C01_unsync : forall c ops, cfg_ok c -> N.of_nat (length ops) < 2 ^ 24 ->
  u_trace_ok c ∅ urun_init ops.
Proof. exact u_trace_ok_all. Qed.

Theorem C01_sync : forall c ops, s_trace_ok c ∅ srun_init ops.
Proof. exact s_trace_ok_all. Qed.

(** a justified answer shows exactly the value of the reference cell of its key *)
Theorem C01_justified_is_latest_value : forall ttl tti now r k v,
  justified ttl tti now r k v -> exists c, r !! k = Some c /\ rc_val c = v.
Proof. exact justified_value. Qed.

(** the reference cell of a key is its most recent insert ... *)
Theorem C01_reference_tracks_latest_insert : forall f now r k v,
  rstep f now r (AInsert k v) !! k = Some (mkRC v now now).
Proof. exact rstep_insert. Qed.
(** ... and is gone once invalidated by key, by predicate, or by an invalidate_all at a
    strictly later clock reading (any invalidate_all for the single-threaded cache) *)
Theorem C01_reference_invalidate : forall f now r k, rstep f now r (AInvalidate k) !! k = None.
Proof. exact rstep_invalidate_gone. Qed.
Theorem C01_reference_invalidate_if : forall f now r p k c,
  r !! k = Some c -> p k (rc_val c) = true -> rstep f now r (AInvalidateIf p) !! k = None.
Proof. exact rstep_invalidate_if_gone. Qed.
Theorem C01_reference_invalidate_all_sync : forall now r k c,
  r !! k = Some c -> rc_ins c < now -> rstep FSync now r AInvalidateAll !! k = None.
Proof. exact rstep_invalidate_all_sync_gone. Qed.
Theorem C01_reference_invalidate_all_unsync : forall now r k,
  rstep FUnsync now r AInvalidateAll !! k = None.
Proof. exact rstep_invalidate_all_unsync. Qed.
Theorem C01_never_inserted_never_shown : forall ttl tti now r k v,
  r !! k = None -> ~ justified ttl tti now r k v.
Proof. exact unjustified_absent. Qed.

Check C01_unsync : forall c ops, cfg_ok c -> N.of_nat (length ops) < 2 ^ 24 -> u_trace_ok c ∅ urun_init ops.
Check C01_sync : forall c ops, s_trace_ok c ∅ srun_init ops.
Print Assumptions C01_unsync.
Print Assumptions C01_sync.
Print Assumptions C01_justified_is_latest_value.
Print Assumptions C01_reference_tracks_latest_insert.
Print Assumptions C01_reference_invalidate.
Print Assumptions C01_reference_invalidate_if.
Print Assumptions C01_reference_invalidate_all_sync.
Print Assumptions C01_reference_invalidate_all_unsync.
Print Assumptions C01_never_inserted_never_shown.
