(** Property C01 — lookups return only the latest live value for a key.
    Only property theorems (closed by [exact]), statement pins, Print Assumptions.
    [u_trace_ok]/[s_trace_ok] (Contract/Trace.v) run the cache model and the history-level
    reference state (Spec/History.v: for every key the most recent insert not invalidated
    since) side by side and assert that EVERY answer of get / contains_key / iteration in
    the run is [justified] by the reference state before that step.  All configurations,
    hashers, weighers, clock patterns and placements of sync() are inside the quantifier. *)
From MM Require Import Contract.Trace Contract.UnsyncTrace Contract.SyncTrace Contract.Glue Contract.LastInsert
  Spec.HistoryFacts Unsync.UInvDefs.

Theorem C01_unsync : forall c ops, cfg_ok c -> N.of_nat (length ops) < 2 ^ 24 ->
  u_trace_ok c ∅ urun_init ops.
Proof. exact u_trace_ok_all. Qed.

Theorem C01_sync : forall c ops, s_trace_ok c ∅ srun_init ops.
Proof. exact s_trace_ok_all. Qed.

(** a justified answer shows exactly the value of the reference cell of its key *)
Theorem C01_justified_is_latest_value : forall ttl tti now r k v,
  justified ttl tti now r k v -> exists c, r !! k = Some c /\ rc_val c = v.
Proof. exact justified_value. Qed.

(** the reference cell of a key is its most recent insert ... *)
Theorem C01_reference_tracks_latest_insert : forall f now r k v,
  rstep f now r (AInsert k v) !! k = Some (mkRC v now now).
Proof. exact rstep_insert. Qed.
(** ... and is gone once invalidated by key, by predicate, or by an invalidate_all at a
    strictly later clock reading (any invalidate_all for the single-threaded cache) *)
Theorem C01_reference_invalidate : forall f now r k, rstep f now r (AInvalidate k) !! k = None.
Proof. exact rstep_invalidate_gone. Qed.
Theorem C01_reference_invalidate_if : forall f now r p k c,
  r !! k = Some c -> p k (rc_val c) = true -> rstep f now r (AInvalidateIf p) !! k = None.
Proof. exact rstep_invalidate_if_gone. Qed.
Theorem C01_reference_invalidate_all_sync : forall now r k c,
  r !! k = Some c -> rc_ins c < now -> rstep FSync now r AInvalidateAll !! k = None.
Proof. exact rstep_invalidate_all_sync_gone. Qed.
Theorem C01_reference_invalidate_all_unsync : forall now r k,
  rstep FUnsync now r AInvalidateAll !! k = None.
Proof. exact rstep_invalidate_all_unsync. Qed.
Theorem C01_never_inserted_never_shown : forall ttl tti now r k v,
  r !! k = None -> ~ justified ttl tti now r k v.
Proof. exact unjustified_absent. Qed.

(** the same, with no reference state in the statement: after EVERY history, what get,
    contains_key and iteration show for a key is the value of the textually last insert of
    that key in the history ([u_last_insert] / [s_last_insert] scan the operation list) *)
Theorem C01_unsync_get_returns_last_insert : forall c ops k r run run' v,
  cfg_ok c -> N.of_nat (length (ops ++ [UGet k])) < 2 ^ 24 ->
  u_ref_after c ∅ urun_init ops = Some (r, run) ->
  ustep c run (UGet k) = Ok (run', OVal (Some v)) -> u_last_insert k ops = Some v.
Proof. exact u_get_returns_last_insert. Qed.
Theorem C01_unsync_iter_shows_last_insert : forall c ops r run run' l,
  cfg_ok c -> N.of_nat (length (ops ++ [UIter])) < 2 ^ 24 ->
  u_ref_after c ∅ urun_init ops = Some (r, run) ->
  ustep c run UIter = Ok (run', OList l) ->
  forall k v, (k, v) ∈ l -> u_last_insert k ops = Some v.
Proof. exact u_iter_shows_last_insert. Qed.
Theorem C01_unsync_contains_needs_insert : forall c ops k r run run',
  cfg_ok c -> N.of_nat (length (ops ++ [UContains k])) < 2 ^ 24 ->
  u_ref_after c ∅ urun_init ops = Some (r, run) ->
  ustep c run (UContains k) = Ok (run', OBool true) -> exists v, u_last_insert k ops = Some v.
Proof. exact u_contains_needs_insert. Qed.
Theorem C01_sync_get_returns_last_insert : forall c ops k r run run' v,
  s_ref_after c ∅ srun_init ops = Some (r, run) ->
  sstep c run (SGet k) = Ok (run', SOVal (Some v)) -> s_last_insert k ops = Some v.
Proof. exact s_get_returns_last_insert. Qed.
Theorem C01_sync_iter_shows_last_insert : forall c ops r run run' l,
  s_ref_after c ∅ srun_init ops = Some (r, run) ->
  sstep c run SIter = Ok (run', SOList l) ->
  forall k v, (k, v) ∈ l -> s_last_insert k ops = Some v.
Proof. exact s_iter_shows_last_insert. Qed.

Check C01_unsync : forall c ops, cfg_ok c -> N.of_nat (length ops) < 2 ^ 24 -> u_trace_ok c ∅ urun_init ops.
Check C01_sync : forall c ops, s_trace_ok c ∅ srun_init ops.
Print Assumptions C01_unsync.
Print Assumptions C01_sync.
Print Assumptions C01_justified_is_latest_value.
Print Assumptions C01_reference_tracks_latest_insert.
Print Assumptions C01_reference_invalidate.
Print Assumptions C01_reference_invalidate_if.
Print Assumptions C01_reference_invalidate_all_sync.
Print Assumptions C01_reference_invalidate_all_unsync.
Print Assumptions C01_never_inserted_never_shown.
Print Assumptions C01_unsync_get_returns_last_insert.
Print Assumptions C01_unsync_iter_shows_last_insert.
Print Assumptions C01_unsync_contains_needs_insert.
Print Assumptions C01_sync_get_returns_last_insert.
Print Assumptions C01_sync_iter_shows_last_insert.
