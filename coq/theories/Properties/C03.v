(** Property C03 — no spurious loss: below capacity the cache is exactly a map with expiry.
    Single-threaded cache:
    (a) with no max_capacity, for ALL histories every entry the history-level reference state
        holds live is returned by get / contains_key / iteration with its latest value
        ([u_trace_complete], the converse of C01's [u_trace_ok]): the cache IS a map with expiry;
    (b) a new key whose weight fits in the remaining capacity is admitted and evicts nothing;
    (c) the maintenance every operation starts with removes an entry only if it is expired or
        the cache is over capacity; get/contains_key remove nothing else, invalidation exactly
        its targets; TinyLFU only evicts when there is no room (C13).
    Concurrent cache: the corresponding statements are decided by the lock-step correspondence,
    the no-loss oracle and the refill probe; the accounting theorem they rest on (no ghost
    entries, counters = physical after maintenance) is Sync/SInvTop.v. *)
From MM Require Import Contract.Trace Contract.UnsyncTrace Contract.SyncComplete Unsync.UInvDefs Unsync.UInv Unsync.UPolicyDefs Unsync.UPolicy Sync.SInvDefs Sync.SPolicyDefs Sync.SPolicy Sync.SRecency Sync.SEndToEnd.

Theorem C03_unsync_unbounded_is_map_with_expiry : forall c ops, cfg_ok c -> uc_cap c = None ->
  N.of_nat (length ops) < 2 ^ 24 -> u_trace_complete c ∅ urun_init ops.
Proof. exact u_trace_complete_all. Qed.

Theorem C03_unsync_fitting_insert_admitted_evicts_nothing : forall c s now k v s1 ts s',
  cfg_ok c -> WF' c s -> small s ->
  maintain c s now = Ok (s1, ts) -> u_map s1 !! k = None ->
  has_enough_capacity c (weigh c k v) (u_ws s1) = Ok true ->
  u_insert c s now k v = Ok s' ->
  view s' = <[k := v]> (view s1) /\ lru_keys s' = lru_keys s1 ++ [k] /\ u_ws s' = u_ws s1 + weigh c k v.
Proof. exact u_insert_fits. Qed.

Theorem C03_unsync_maintenance_removal_causes : forall c s now s1 ts k e,
  cfg_ok c -> WF' c s -> small s -> maintain c s now = Ok (s1, ts) ->
  u_map s !! k = Some e -> u_map s1 !! k = None ->
  entry_expired c s e now = Ok true \/ (exists cap, uc_cap c = Some cap /\ cap < u_ws s).
Proof. exact maintain_removal_causes. Qed.

Theorem C03_unsync_get_removes_nothing_else : forall c s now k s1 ts s' res,
  cfg_ok c -> WF' c s -> small s -> maintain c s now = Ok (s1, ts) -> u_get c s now k = Ok (s', res) ->
  view s' = view s1 /\
  match res with
  | Some _ => lru_keys s' = List.filter (fun x => negb (x =? k)) (lru_keys s1) ++ [k]
  | None => lru_keys s' = lru_keys s1
  end.
Proof. exact u_get_recency. Qed.

Theorem C03_unsync_invalidate_removes_exactly_its_target : forall c s now k s1 ts s',
  cfg_ok c -> WF' c s -> small s -> maintain c s now = Ok (s1, ts) -> u_invalidate c s now k = Ok s' ->
  view s' = delete k (view s1) /\ lru_keys s' = List.filter (fun x => negb (x =? k)) (lru_keys s1).
Proof. exact u_invalidate_exact. Qed.

Theorem C03_unsync_invalidate_if_removes_exactly_its_targets : forall c s p s',
  cfg_ok c -> WF' c s -> small s -> u_invalidate_if s p = Ok s' ->
  view s' = filter (fun kv => p kv.1 kv.2 = false) (view s) /\
  lru_keys s' = List.filter (fun x => match view s !! x with Some v => negb (p x v) | None => true end) (lru_keys s).
Proof. exact u_invalidate_if_exact. Qed.

Theorem C03_unsync_update_evicts_nothing : forall c s now k v s1 ts s' e,
  cfg_ok c -> WF' c s -> small s ->
  maintain c s now = Ok (s1, ts) -> u_map s1 !! k = Some e ->
  u_insert c s now k v = Ok s' ->
  view s' = <[k := v]> (view s1) /\
  lru_keys s' = List.filter (fun x => negb (x =? k)) (lru_keys s1) ++ [k] /\
  u_ws s' + ue_weight e = u_ws s1 + weigh c k v.
Proof. exact u_insert_update. Qed.

(** concurrent cache (sequential regime, any placement of sync(), both housekeeping regimes): with no
    max_capacity every entry that is live under the WEAK reference — in which a successful get does
    not extend the idle timer, because on the concurrent cache that extension is only guaranteed
    once pending maintenance has applied it — is returned by get / contains_key / iteration with
    its latest value: nothing is dropped for any other reason *)
Theorem C03_sync_unbounded_is_map_with_expiry : forall c ops, scfg_ok c -> sc_cap c = None ->
  N.of_nat (length ops) < 2 ^ 18 -> s_trace_complete c ∅ srun_init ops.
Proof. exact s_trace_complete_all. Qed.

(** a maintenance run on a state with nothing queued removes a map entry only if it is expired
    (ttl, tti or valid_after, on its own timestamps) or the cache is over capacity *)
Theorem C03_sync_maintenance_removal_causes : forall c s now s' k ve,
  scfg_ok c -> SInv c s -> s_small s -> quiescent s -> s_sync c s now = Ok s' ->
  s_map s !! k = Some ve -> s_map s' !! k = None ->
  info_expired c s (get_info s (ve_info s ve)) now = true \/
  (exists cap, sc_cap c = Some cap /\ cap < s_ws s).
Proof. exact s_sync_removal_causes. Qed.
(** a pending fresh insert that fits is admitted by the next maintenance run and evicts nothing (first branches) *)
Theorem C03_sync_fitting_insert_admitted_evicts_nothing : forall c s k ve w s',
  scfg_ok c -> SInv c s -> s_small s -> pending_insert c s k ve w ->
  apply_writes c s 1 = Ok s' ->
  SInv c s' /\ quiescent s' /\
  match sc_cap c with
  | None =>
      s_view s' = s_view s /\ s_lru_keys s' = s_lru_keys s ++ [k] /\ s_ws s' = s_ws s + w
  | Some cap =>
    if s_ws s + w <=? cap then
      s_view s' = s_view s /\ s_lru_keys s' = s_lru_keys s ++ [k] /\ s_ws s' = s_ws s + w
    else if cap <? w then
      s_view s' = delete k (s_view s) /\ s_prob s' = s_prob s /\ s_wo s' = s_wo s /\ s_ws s' = s_ws s
    else match tinylfu_victims (s_lru_triples s) w (frequency (s_sk s) (sc_hash c k)) with
         | Some p =>
             s_view s' = delete_keys (p.*1.*1) (s_view s) /\
             s_lru_keys s' = drop (length p) (s_lru_keys s) ++ [k] /\
             p.*1.*1 = take (length p) (s_lru_keys s) /\
             s_ws s' + sum_w p = s_ws s + w
         | None =>
             s_view s' = delete k (s_view s) /\ s_prob s' = s_prob s /\ s_wo s' = s_wo s /\ s_ws s' = s_ws s
         end
  end.
Proof. exact s_pending_insert_outcome. Qed.

(** OPERATION LEVEL, concurrent cache with maintenance after every operation (Sync/SEndToEnd.v): the
    operation and the maintenance run that follows it, composed, in BOTH housekeeping regimes, stated on
    the quiescent state before the operation (no expiry configured, no invalidate_all cut-off pending). *)
Theorem C03_sync_insert_then_maintenance : forall c r k v r1 o1 r2 o2,
  let s := sr_state r in let s' := sr_state r2 in let w := sweigh c k v in
  scfg_ok c -> SInv c s -> s_small s -> s_next s + 2 < 2 ^ 31 ->
  quiescent s -> noexp c s -> within c s -> s_map s !! k = None ->
  sstep c r (SInsert k v) = Ok (r1, o1) -> sstep c r1 SSync = Ok (r2, o2) ->
  SInv c s' /\ quiescent s' /\
  match sc_cap c with
  | None => s_view s' = <[k := v]> (s_view s) /\ s_lru_keys s' = s_lru_keys s ++ [k] /\ s_ws s' = s_ws s + w
  | Some cap =>
    if s_ws s + w <=? cap then
      s_view s' = <[k := v]> (s_view s) /\ s_lru_keys s' = s_lru_keys s ++ [k] /\ s_ws s' = s_ws s + w
    else if cap <? w then
      s_view s' = s_view s /\ s_lru_keys s' = s_lru_keys s /\ s_ws s' = s_ws s
    else match tinylfu_victims (s_lru_triples s) w (frequency (s_sk s) (sc_hash c k)) with
         | Some p =>
             s_view s' = <[k := v]> (delete_keys (p.*1.*1) (s_view s)) /\
             s_lru_keys s' = drop (length p) (s_lru_keys s) ++ [k] /\
             p.*1.*1 = take (length p) (s_lru_keys s) /\
             s_ws s' + sum_w p = s_ws s + w
         | None =>
             s_view s' = s_view s /\ s_lru_keys s' = s_lru_keys s /\ s_ws s' = s_ws s
         end
  end.
Proof. exact s_insert_sync_outcome. Qed.

Print Assumptions C03_sync_insert_then_maintenance.
Print Assumptions C03_sync_maintenance_removal_causes.
Print Assumptions C03_sync_fitting_insert_admitted_evicts_nothing.
Print Assumptions C03_sync_unbounded_is_map_with_expiry.
Print Assumptions C03_unsync_unbounded_is_map_with_expiry.
Print Assumptions C03_unsync_fitting_insert_admitted_evicts_nothing.
Print Assumptions C03_unsync_maintenance_removal_causes.
Print Assumptions C03_unsync_get_removes_nothing_else.
Print Assumptions C03_unsync_invalidate_removes_exactly_its_target.
Print Assumptions C03_unsync_invalidate_if_removes_exactly_its_targets.
Print Assumptions C03_unsync_update_evicts_nothing.
