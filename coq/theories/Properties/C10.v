(** Property C10 — entry_count and weighted_size equal what the cache physically holds.
    Single-threaded cache: after EVERY operation of EVERY history (clauses wf_ec / wf_ws of the
    inductive invariant WF).  Concurrent cache (sequential regime): after every maintenance
    run that leaves nothing queued — see the sync section below. *)
From MM Require Import Unsync.UInvDefs Unsync.UInv Sync.SInvDefs Sync.SInvWrites Sync.SInvTop.

Theorem C10_unsync_counters : forall c ops r outs, cfg_ok c -> N.of_nat (length ops) < 2 ^ 24 ->
  urun_ops c urun_init ops = Ok (r, outs) ->
  u_ec (ur_state r) = map_count (u_map (ur_state r)) /\
  u_ws (ur_state r) = map_weight (u_map (ur_state r)).
Proof. exact urun_counters. Qed.

(** ... and no history makes the model fail on the way (so the statement above is not vacuous) *)
Theorem C10_unsync_runs : forall c ops, cfg_ok c -> N.of_nat (length ops) < 2 ^ 24 ->
  exists r outs, urun_ops c urun_init ops = Ok (r, outs) /\ WF' c (ur_state r).
Proof. exact urun_safe. Qed.

(** concurrent cache: a maintenance run empties both queues, and whenever nothing is queued
    entry_count = number of map entries = number of deque nodes, weighted_size = the
    weigher's sum over the map; every map entry is admitted and every node belongs to the map
    entry of its key (no ghosts, no orphans) *)
Theorem C10_sync_maintenance_quiesces : forall c s now, scfg_ok c -> SInv c s -> s_small s ->
  exists s', s_sync c s now = Ok s' /\ SInv c s' /\ quiescent s'.
Proof. exact sync_quiescent. Qed.

Theorem C10_sync_quiescent_counters : forall c s, SInv c s -> quiescent s ->
  s_ec s = N.of_nat (size (s_map s)) /\ s_ec s = qlen (s_prob s) /\ s_ws s = s_map_weight c s /\
  (forall k ve, s_map s !! k = Some ve -> si_admitted (get_info s (ve_info s ve)) = true) /\
  (forall n nd, (n, nd) ∈ s_prob s -> map_has_info s (sa_key nd) (sa_info nd) = true).
Proof. exact quiescent_counters. Qed.

(** ... in every reachable state (all histories, sync placements, regimes) *)
Theorem C10_sync_reachable : forall c ops, scfg_ok c -> N.of_nat (length ops) < 2 ^ 18 ->
  exists r outs, srun_ops c srun_init ops = Ok (r, outs) /\ SInv c (sr_state r).
Proof. exact srun_safe. Qed.

Check C10_unsync_counters : forall c ops r outs, cfg_ok c -> N.of_nat (length ops) < 2 ^ 24 ->
  urun_ops c urun_init ops = Ok (r, outs) ->
  u_ec (ur_state r) = map_count (u_map (ur_state r)) /\ u_ws (ur_state r) = map_weight (u_map (ur_state r)).
Print Assumptions C10_unsync_counters.
Print Assumptions C10_unsync_runs.
Print Assumptions C10_sync_maintenance_quiesces.
Print Assumptions C10_sync_quiescent_counters.
Print Assumptions C10_sync_reachable.
