(** Property C10 — entry_count and weighted_size equal what the cache physically holds.
    Single-threaded cache: after EVERY operation of EVERY history (clauses wf_ec / wf_ws of the
    inductive invariant WF).  Concurrent cache (sequential regime): after every maintenance
    run that leaves nothing queued — see the sync section below. *)
From MM Require Import Unsync.UInvDefs Unsync.UInv.

Theorem C10_unsync_counters : forall c ops r outs, cfg_ok c -> N.of_nat (length ops) < 2 ^ 24 ->
  urun_ops c urun_init ops = Ok (r, outs) ->
  u_ec (ur_state r) = map_count (u_map (ur_state r)) /\
  u_ws (ur_state r) = map_weight (u_map (ur_state r)).
Proof. exact urun_counters. Qed.

(** ... and no history makes the model fail on the way (so the statement above is not vacuous) *)
Theorem C10_unsync_runs : forall c ops, cfg_ok c -> N.of_nat (length ops) < 2 ^ 24 ->
  exists r outs, urun_ops c urun_init ops = Ok (r, outs) /\ WF' c (ur_state r).
Proof. exact urun_safe. Qed.

Check C10_unsync_counters : forall c ops r outs, cfg_ok c -> N.of_nat (length ops) < 2 ^ 24 ->
  urun_ops c urun_init ops = Ok (r, outs) ->
  u_ec (ur_state r) = map_count (u_map (ur_state r)) /\ u_ws (ur_state r) = map_weight (u_map (ur_state r)).
Print Assumptions C10_unsync_counters.
Print Assumptions C10_unsync_runs.
