(** Property C09 — every operation terminates: no deadlock, livelock or stalled maintenance.
    Sequential clause (Sync/SInvTop.v): in the concurrent-cache model every operation of every
    history returns Ok — in particular the retry loop of schedule_write_op (modelled on explicit
    fuel 2, Err OutOfFuel when exhausted) never runs out of fuel, for any number of inserts
    without sync(), in both housekeeping regimes: when the write queue reaches its flush point
    the insert itself performs the pending maintenance; both channels stay within their flush
    points between operations (clause Q of SInv).
    Concurrent clause (Conc/HK.v): abstract interleaving model of the housekeeper flag, the
    bounded write channel and the deques mutex, for ANY number of threads running finite
    programs of inserts and explicit syncs, ALL interleavings: the flag is held only between the
    successful CAS and the releasing store (so it is released on every path), no reachable
    state is deadlocked, and under every fair scheduler all threads finish.
    PARTIAL: OS-scheduler fairness and the 50 us sleep are runtime behaviour; the tie is the
    controlled-scheduler exploration (termination oracle with a step budget + flag/lock action
    traces accepted by the extracted [hk_accepts]) and single-thread bursts of N >> 384 ops. *)
From MM Require Import Sync.SInvDefs Sync.SInvWrites Sync.SInvTop Conc.HK.

Theorem C09_seq_every_operation_returns : forall c r o, scfg_ok c -> SInv c (sr_state r) -> s_small (sr_state r) ->
  exists r' out, sstep c r o = Ok (r', out) /\ SInv c (sr_state r') /\
    s_next (sr_state r') <= s_next (sr_state r) + 140 /\
    sk_load_s (sr_state r') <= sk_load_s (sr_state r) + 264 /\
    sr_now r <= sr_now r'.
Proof. exact sstep_safe. Qed.

Theorem C09_seq_every_history_completes : forall c ops, scfg_ok c -> N.of_nat (length ops) < 2 ^ 18 ->
  exists r outs, srun_ops c srun_init ops = Ok (r, outs) /\ SInv c (sr_state r).
Proof. exact srun_safe. Qed.

Theorem C09_seq_maintenance_drains_queues : forall c s now, scfg_ok c -> SInv c s -> s_small s ->
  exists s', s_sync c s now = Ok s' /\ SInv c s' /\ quiescent s'.
Proof. exact sync_quiescent. Qed.

Theorem C09_conc_no_deadlock : forall cap a0 progs st,
  a0 <= cap -> NoDup (map fst progs) -> hk_reachable cap a0 progs st -> hk_finished st = false ->
  exists t choice n st', hk_step cap st t choice n = Some st'.
Proof. exact hk_deadlock_free. Qed.

Theorem C09_conc_terminates_under_fairness : forall cap a0 progs st sc,
  a0 <= cap -> NoDup (map fst progs) -> hk_reachable cap a0 progs st -> fair_sched (map fst progs) sc ->
  exists k, let st' := hk_exec cap st sc k in
            hk_finished st' = true /\ h_flag st' = None /\ h_lock st' = None.
Proof. exact hk_terminates. Qed.

Theorem C09_conc_can_always_finish : forall cap a0 progs st,
  a0 <= cap -> NoDup (map fst progs) -> hk_reachable cap a0 progs st ->
  exists s st', hk_run cap st s = Some st' /\ hk_finished st' = true.
Proof. exact hk_can_finish. Qed.

Theorem C09_conc_flag_released : forall cap a0 progs st,
  a0 <= cap -> NoDup (map fst progs) -> hk_reachable cap a0 progs st ->
  hk_finished st = true -> h_flag st = None /\ h_lock st = None.
Proof. exact hk_flag_released. Qed.

(** what an instrumented implementation reports (flag / lock actions) is accepted by the monitor *)
Theorem C09_conc_model_traces_accepted : forall cap a0 progs s st,
  a0 <= cap -> NoDup (map fst progs) -> hk_run cap (hk_init a0 progs) s = Some st ->
  hk_accepts (hk_trace cap (hk_init a0 progs) s) = true.
Proof. exact hk_accepts_sound. Qed.

Print Assumptions C09_seq_every_operation_returns.
Print Assumptions C09_seq_every_history_completes.
Print Assumptions C09_seq_maintenance_drains_queues.
Print Assumptions C09_conc_no_deadlock.
Print Assumptions C09_conc_terminates_under_fairness.
Print Assumptions C09_conc_can_always_finish.
Print Assumptions C09_conc_flag_released.
Print Assumptions C09_conc_model_traces_accepted.
