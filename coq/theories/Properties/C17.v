(** Property C17 — configuration is honoured exactly as given. *)
From MM Require Import Config.Builder Unsync.UModel.

Theorem C17_policy_reports_configuration : forall b h c,
  build b h = Ok c -> policy c = (b_cap b, b_ttl b, b_tti b).
Proof. exact policy_of_build. Qed.

Theorem C17_build_panics_iff_too_long : forall b h,
  build b h = Err Panic <->
  (exists d, b_ttl b = Some d /\ max_expiry_ns < d) \/ (exists d, b_tti b = Some d /\ max_expiry_ns < d).
Proof. exact build_panics_iff. Qed.

Theorem C17_build_succeeds_otherwise : forall b h,
  (exists c, build b h = Ok c) <->
  (forall d, b_ttl b = Some d -> d <= max_expiry_ns) /\ (forall d, b_tti b = Some d -> d <= max_expiry_ns).
Proof. exact build_ok_iff. Qed.

Theorem C17_new_is_builder : forall n h, new_cache n h = build (mkB (Some n) None None None None) h.
Proof. exact new_is_builder. Qed.

Theorem C17_initial_capacity_no_effect : forall b h ic,
  build (mkB (b_cap b) ic (b_ttl b) (b_tti b) (b_wf b)) h = build b h.
Proof. exact initial_capacity_ignored. Qed.

Theorem C17_no_weigher_weighs_one : forall c k v, uc_wf c = None -> weigh c k v = 1.
Proof. exact no_weigher_weighs_one. Qed.

Theorem C17_no_capacity_nothing_to_evict : forall c s, uc_cap c = None -> weights_to_evict c s = 0.
Proof. exact no_capacity_no_eviction. Qed.
Theorem C17_no_capacity_always_room : forall c w ws, uc_cap c = None -> has_enough_capacity c w ws = Ok true.
Proof. exact no_capacity_always_room. Qed.

Print Assumptions C17_policy_reports_configuration.
Print Assumptions C17_build_panics_iff_too_long.
Print Assumptions C17_build_succeeds_otherwise.
Print Assumptions C17_new_is_builder.
Print Assumptions C17_initial_capacity_no_effect.
Print Assumptions C17_no_weigher_weighs_one.
Print Assumptions C17_no_capacity_nothing_to_evict.
Print Assumptions C17_no_capacity_always_room.
