(** Property C07 — invalidation is immediate, permanent and precise.
    Immediate + permanent: once the reference state lacks a key (which is the case right
    after invalidate(k), after invalidate_entries_if(p) for keys whose value satisfies p, and
    after invalidate_all for everything inserted before / at a strictly earlier reading), NO
    lookup of ANY later history shows that key until it is inserted again — whatever
    maintenance does in between.  Precise: the reference state of every other key is
    untouched, lookups of the single-threaded cache without max_capacity return every
    reference-live entry (nothing else is lost), and anything inserted after the call is in
    the reference state again. *)
From MM Require Import Contract.Trace Contract.UnsyncTrace Contract.SyncTrace Contract.Glue
  Spec.HistoryFacts Unsync.UInvDefs.

Theorem C07_unsync_never_reappears : forall c ops1 ops2 k r run,
  cfg_ok c -> N.of_nat (length (ops1 ++ ops2)) < 2 ^ 24 ->
  u_ref_after c ∅ urun_init ops1 = Some (r, run) -> r !! k = None ->
  u_silent_until_insert c k run ops2.
Proof. exact u_invalidated_never_reappears. Qed.

Theorem C07_sync_never_reappears : forall c ops1 ops2 k r run,
  s_ref_after c ∅ srun_init ops1 = Some (r, run) -> r !! k = None ->
  s_silent_until_insert c k run ops2.
Proof. exact s_invalidated_never_reappears. Qed.

(** the targeted entries leave the reference state at the call ... *)
Theorem C07_invalidate_targets : forall f now r k, rstep f now r (AInvalidate k) !! k = None.
Proof. exact rstep_invalidate_gone. Qed.
Theorem C07_invalidate_if_targets : forall f now r p k c,
  r !! k = Some c -> p k (rc_val c) = true -> rstep f now r (AInvalidateIf p) !! k = None.
Proof. exact rstep_invalidate_if_gone. Qed.
Theorem C07_invalidate_all_targets_unsync : forall now r k, rstep FUnsync now r AInvalidateAll !! k = None.
Proof. exact rstep_invalidate_all_unsync. Qed.
Theorem C07_invalidate_all_targets_sync : forall now r k c,
  r !! k = Some c -> rc_ins c < now -> rstep FSync now r AInvalidateAll !! k = None.
Proof. exact rstep_invalidate_all_sync_gone. Qed.
(** ... stay out until the key is inserted again ... *)
Theorem C07_absent_stays_absent : forall f now r o k,
  r !! k = None -> (forall v, o <> AInsert k v) -> rstep f now r o !! k = None.
Proof. exact rstep_absent_stays. Qed.
(** ... and nothing else is affected *)
Theorem C07_invalidate_other_keys : forall f now r k k', k' <> k -> rstep f now r (AInvalidate k) !! k' = r !! k'.
Proof. exact rstep_invalidate_other. Qed.
Theorem C07_invalidate_if_non_matching : forall f now r p k c,
  r !! k = Some c -> p k (rc_val c) = false -> rstep f now r (AInvalidateIf p) !! k = Some c.
Proof. exact rstep_invalidate_if_other. Qed.
Theorem C07_invalidate_all_sync_keeps_later : forall now r k c,
  r !! k = Some c -> now <= rc_ins c -> rstep FSync now r AInvalidateAll !! k = Some c.
Proof. exact rstep_invalidate_all_sync_kept. Qed.
Theorem C07_reinsert_is_live_again : forall f now r k v,
  rstep f now r (AInsert k v) !! k = Some (mkRC v now now).
Proof. exact rstep_insert. Qed.
(** the single-threaded cache without max_capacity returns every reference-live entry:
    what invalidation did not target remains retrievable *)
Theorem C07_unsync_nothing_else_lost : forall c ops, cfg_ok c -> uc_cap c = None ->
  N.of_nat (length ops) < 2 ^ 24 -> u_trace_complete c ∅ urun_init ops.
Proof. exact u_trace_complete_all. Qed.

Check C07_sync_never_reappears : forall c ops1 ops2 k r run,
  s_ref_after c ∅ srun_init ops1 = Some (r, run) -> r !! k = None -> s_silent_until_insert c k run ops2.
Print Assumptions C07_unsync_never_reappears.
Print Assumptions C07_sync_never_reappears.
Print Assumptions C07_invalidate_targets.
Print Assumptions C07_invalidate_if_targets.
Print Assumptions C07_invalidate_all_targets_unsync.
Print Assumptions C07_invalidate_all_targets_sync.
Print Assumptions C07_absent_stays_absent.
Print Assumptions C07_invalidate_other_keys.
Print Assumptions C07_invalidate_if_non_matching.
Print Assumptions C07_invalidate_all_sync_keeps_later.
Print Assumptions C07_reinsert_is_live_again.
Print Assumptions C07_unsync_nothing_else_lost.
