(** Observations of the unsync cache are pure: inserting [contains_key] / [iter]
    calls into a history changes no other result, provided no purge is truncated
    ([small_universe]) and no inserted [contains_key] starts while a size excess
    is pending ([quiet_insertion]).  The excluded case is real
    ([unsync_contains_not_pure_with_pending_excess]).

    Proof outline.
    - Extra invariants along a run ([Inv]): [Sorted] (node timestamps are
      non-decreasing along both deques and bounded by the clock) and [kb] (all keys
      below the batch size, hence deques no longer than the purge fuel).
    - [evict_expired_spec]: under these, the purge removes exactly the entries for
      which [entry_expired] holds ([rm_rel (deadk c s now)]); the result is unique
      ([rm_rel_fun]).
    - Consequences: a purge is absorbed by any later purge ([purge_later]), [iter]
      does not see what a purge would remove ([iter_purge], using that the order of
      [map_to_list] on a gmap is stable under [omap]: [gmap_to_list_omap]), and
      [invalidate_entries_if] commutes with the purge ([inv_if_purge]).
    - Simulation [Rel]: same clock, equal states after the purge.  Every kept
      operation preserves it with equal outputs ([step_keep]); an inserted
      [contains_key] without pending excess is just the purge ([step_add_contains]);
      an inserted [iter] changes nothing. *)
From MM Require Import Unsync.UInv.
From stdpp Require Import pmap sorting.
From Coq Require Import Lia.
Open Scope N_scope.

(** * Statement vocabulary *)
Definition obs_u (o : uop) : bool := match o with UContains _ | UIter => true | _ => false end.

(* h' is h with observation calls inserted anywhere *)
Inductive obs_inserted_u : list uop -> list uop -> Prop :=
| oiu_nil : obs_inserted_u [] []
| oiu_keep o h h' : obs_inserted_u h h' -> obs_inserted_u (o :: h) (o :: h')
| oiu_add o h h' : obs_u o = true -> obs_inserted_u h h' -> obs_inserted_u h (o :: h').

Inductive outs_match_u : list uop -> list uop -> list uout -> list uout -> Prop :=
| omu_nil : outs_match_u [] [] [] []
| omu_keep o h h' x outs outs' : outs_match_u h h' outs outs' -> outs_match_u (o :: h) (o :: h') (x :: outs) (x :: outs')
| omu_add o h h' x outs outs' : obs_u o = true -> outs_match_u h h' outs outs' -> outs_match_u h (o :: h') outs (x :: outs').

(* after the expiry purge of a maintenance run there is nothing to evict for size *)
Definition no_pending_excess (c : ucfg) (s : ustate) (now : N) : Prop :=
  forall s1, evict_expired c s now = Ok s1 -> weights_to_evict c s1 = 0.

(* along the run of h' (the longer history), every INSERTED contains_key starts without pending excess *)
Inductive quiet_insertion (c : ucfg) : urun -> list uop -> list uop -> Prop :=
| qi_nil r : quiet_insertion c r [] []
| qi_keep r o h h' :
    (forall r' out, ustep c r o = Ok (r', out) -> quiet_insertion c r' h h') ->
    quiet_insertion c r (o :: h) (o :: h')
| qi_add r o h h' : obs_u o = true ->
    (forall k, o = UContains k -> no_pending_excess c (ur_state r) (ur_now r)) ->
    (forall r' out, ustep c r o = Ok (r', out) -> quiet_insertion c r' h h') ->
    quiet_insertion c r h (o :: h').

(* key universe smaller than one maintenance batch: no purge is ever truncated *)
Definition small_universe (h : list uop) : Prop :=
  forall k v, UInsert k v ∈ h -> k < U_EVICTION_BATCH_SIZE.

(** * The excluded case is real *)
Definition cx_cfg : ucfg := mkUCfg (Some 2) None None (Some (fun _ v => v)) (fun k => k).
Definition cx_h : list uop := [UInsert 1 1; UInsert 2 1; UInsert 2 2; UIter].
Definition cx_h' : list uop := [UInsert 1 1; UInsert 2 1; UInsert 2 2; UContains 99; UIter].

Lemma cx_run : exists r, urun_ops cx_cfg urun_init cx_h = Ok (r, [ONone; ONone; ONone; OList [(1, 1); (2, 2)]]).
Proof. eexists. vm_compute. reflexivity. Qed.

Lemma cx_run' : exists r, urun_ops cx_cfg urun_init cx_h' = Ok (r, [ONone; ONone; ONone; OBool false; OList [(2, 2)]]).
Proof. eexists. vm_compute. reflexivity. Qed.

Example unsync_contains_not_pure_with_pending_excess :
  exists c h h' r1 outs r2 outs', obs_inserted_u h h' /\
    urun_ops c urun_init h = Ok (r1, outs) /\ urun_ops c urun_init h' = Ok (r2, outs') /\
    ~ outs_match_u h h' outs outs'.
Proof.
  destruct cx_run as [r1 E1]. destruct cx_run' as [r2 E2].
  eexists cx_cfg, cx_h, cx_h', r1, _, r2, _. split; [|split; [exact E1|split; [exact E2|]]].
  - unfold cx_h, cx_h'. do 3 apply oiu_keep. apply oiu_add; [done|]. apply oiu_keep, oiu_nil.
  - clear E1 E2. unfold cx_h, cx_h'. intros H.
    repeat match goal with
    | H : outs_match_u _ _ _ _ |- _ => inversion H; clear H; subst; try discriminate
    end.
Qed.

(** * The order of [map_to_list] is stable under [omap] (gmap is a canonical trie) *)
Lemma Pto_list_raw_PNode' {A} j o (l r : Pmap_raw A) acc :
  Pto_list_raw j (PNode' o l r) acc = Pto_list_raw j (PNode o l r) acc.
Proof. destruct o, l, r; reflexivity. Qed.

Lemma Pto_list_raw_omap {A B} (f : A -> option B) (t : Pmap_raw A) : forall j acc,
  Pto_list_raw j (Pomap_raw f t) (omap (fun p => (fun y => (p.1, y)) <$> f p.2) acc)
  = omap (fun p => (fun y => (p.1, y)) <$> f p.2) (Pto_list_raw j t acc).
Proof.
  induction t as [|o l IHl r IHr]; intros j acc; cbn [Pomap_raw Pto_list_raw]; [done|].
  rewrite Pto_list_raw_PNode'. cbn [Pto_list_raw].
  rewrite omap_app, <-IHl, <-IHr. f_equal.
  destruct o as [x|]; cbn; [|done]. destruct (f x); done.
Qed.

Lemma gmap_to_list_omap {A B} (f : A -> option B) (m : gmap N A) :
  map_to_list (omap f m) = omap (fun p => (fun y => (p.1, y)) <$> f p.2) (map_to_list m).
Proof.
  destruct m as [[t Ht] Hm]. unfold omap at 1, map_to_list, gmap_omap, gmap_to_list.
  change (map_to_list (omap f {| pmap_car := t; pmap_prf := Ht |})) with (Pto_list_raw 1 (Pomap_raw f t) []).
  change (map_to_list {| pmap_car := t; pmap_prf := Ht |}) with (Pto_list_raw 1 t []).
  pose proof (Pto_list_raw_omap f t 1%positive []) as H. cbn [omap list_omap] in H.
  rewrite H. generalize (Pto_list_raw 1 t []). intros l.
  induction l as [|[i x] l IH]; [done|]. cbn [omap list_omap fst snd].
  destruct (f x) as [y|] eqn:E; cbn [fmap option_fmap option_map].
  - cbn. destruct (decode i) as [k|]; cbn; rewrite ?E; cbn; rewrite IH; done.
  - cbn. destruct (decode i) as [k|]; cbn; rewrite ?E; cbn; rewrite IH; done.
Qed.

(** * Lists *)
Lemma filter_ext_in {A} (P Q : A -> Prop) `{forall x, Decision (P x)} `{forall x, Decision (Q x)} (l : list A) :
  (forall x, x ∈ l -> P x <-> Q x) -> filter P l = filter Q l.
Proof.
  induction l as [|x l IH]; intros Hl; [done|].
  rewrite !filter_cons. rewrite IH by (intros y Hy; apply Hl; by right).
  destruct (decide (P x)) as [HP|HP], (decide (Q x)) as [HQ|HQ]; try done;
    exfalso; apply (Hl x ltac:(left)) in HP || apply (Hl x ltac:(left)) in HQ; done.
Qed.

Lemma filter_all {A} (P : A -> Prop) `{forall x, Decision (P x)} (l : list A) :
  (forall x, x ∈ l -> P x) -> filter P l = l.
Proof.
  induction l as [|x l IH]; intros Hl; [done|].
  rewrite filter_cons_True by (apply Hl; left). f_equal. apply IH. intros y Hy. apply Hl. by right.
Qed.

Lemma filter_sublist {A} (P : A -> Prop) `{forall x, Decision (P x)} (l : list A) :
  sublist (filter P l) l.
Proof.
  induction l as [|x l IH]; [constructor|]. rewrite filter_cons.
  destruct (decide (P x)); [by apply sublist_skip|by apply sublist_cons].
Qed.

Lemma sublist_elem {A} (l k : list A) x : sublist l k -> x ∈ l -> x ∈ k.
Proof. intros Hs. induction Hs; [done|rewrite !elem_of_cons; naive_solver|rewrite elem_of_cons; naive_solver]. Qed.

Lemma sublist_Forall {A} (P : A -> Prop) (l k : list A) : sublist l k -> Forall P k -> Forall P l.
Proof. intros Hs Hk. rewrite Forall_forall in *. intros x Hx. apply Hk. by eapply sublist_elem. Qed.

Lemma sublist_StronglySorted {A} (R : relation A) (l k : list A) :
  sublist l k -> StronglySorted R k -> StronglySorted R l.
Proof.
  intros Hs. induction Hs as [|x l k Hs IH|x l k Hs IH]; intros Hk; [done| |].
  - apply StronglySorted_inv in Hk as [Hk Hall]. constructor; [by apply IH|]. by eapply sublist_Forall.
  - apply StronglySorted_inv in Hk as [Hk _]. by apply IH.
Qed.

(** id-tagged lists *)
Section ids2.
  Context {A : Type}.
  Implicit Types l : list (N * A).

  Lemma find_id_update_id n f l : find_id n (update_id n f l) = f <$> find_id n l.
  Proof.
    induction l as [|[m b] l IH]; cbn [update_id find_id]; [done|].
    destruct (N.eqb_spec m n) as [->|Hne]; cbn [find_id].
    - by rewrite N.eqb_refl.
    - destruct (N.eqb_spec m n); [done|]. exact IH.
  Qed.

  Lemma remove_id_update_id n f l : remove_id n (update_id n f l) = remove_id n l.
  Proof.
    induction l as [|[m b] l IH]; cbn [update_id remove_id]; [done|].
    destruct (N.eqb_spec m n) as [->|Hne]; cbn [remove_id].
    - by rewrite N.eqb_refl.
    - destruct (N.eqb_spec m n); [done|]. by rewrite IH.
  Qed.

  Lemma mem_id_find n l : mem_id n l = true -> exists a, find_id n l = Some a.
  Proof. unfold mem_id. destruct (find_id n l); [eauto|done]. Qed.

  Lemma remove_id_filter (key : A -> N) k n l :
    NoDup l.*1 -> (forall n' a, (n', a) ∈ l -> (key a = k <-> n' = n)) ->
    remove_id n l = filter (fun x => (key x.2 =? k) = false) l.
  Proof.
    induction l as [|[m b] l IH]; [done|]. rewrite fmap_cons. cbn [fst remove_id].
    intros Hnd Hk. apply NoDup_cons in Hnd as [Hnotin Hnd].
    destruct (N.eqb_spec m n) as [->|Hne].
    - rewrite filter_cons_False.
      2:{ cbn [snd]. rewrite (proj2 (Hk n b ltac:(left)) eq_refl), N.eqb_refl. done. }
      symmetry. apply filter_all. intros [n' a] Hin. cbn [snd].
      destruct (N.eqb_spec (key a) k) as [Heq|]; [|done].
      exfalso. apply Hnotin. apply (Hk n' a ltac:(by right)) in Heq. subst. by eapply elem_fst.
    - rewrite filter_cons_True.
      2:{ cbn [snd]. destruct (N.eqb_spec (key b) k) as [Heq|]; [|done].
          apply (Hk m b ltac:(left)) in Heq. done. }
      f_equal. apply IH; [done|]. intros n' a Hin. apply Hk. by right.
  Qed.

  Lemma find_id_filter (P : N * A -> Prop) `{forall x, Decision (P x)} n a l :
    NoDup l.*1 -> (n, a) ∈ l -> P (n, a) -> find_id n (filter P l) = Some a.
  Proof.
    intros Hnd Hin HP. apply elem_find_id.
    - eapply sublist_nodup; [|exact Hnd]. apply fmap_sublist, filter_sublist.
    - apply elem_of_list_filter. done.
  Qed.
End ids2.

(** * Timestamp order of the deques *)
Definition ts_le (a b : option N) : Prop := opt_default 0 a <= opt_default 0 b.

Definition tsorted {A} (ts : A -> option N) (now : N) (l : list (N * A)) : Prop :=
  StronglySorted (fun x y => ts_le (ts x.2) (ts y.2)) l /\
  Forall (fun x => opt_default 0 (ts x.2) <= now) l.

Lemma tsorted_nil {A} (ts : A -> option N) now : tsorted ts now [].
Proof. split; constructor. Qed.

Lemma tsorted_sublist {A} (ts : A -> option N) now l l' :
  sublist l' l -> tsorted ts now l -> tsorted ts now l'.
Proof. intros Hs [H1 H2]. split; [by eapply sublist_StronglySorted|by eapply sublist_Forall]. Qed.

Lemma tsorted_mono {A} (ts : A -> option N) now now' l :
  now <= now' -> tsorted ts now l -> tsorted ts now' l.
Proof. intros Hle [H1 H2]. split; [done|]. eapply Forall_impl; [exact H2|]. cbn. intros. lia. Qed.

Lemma tsorted_snoc {A} (ts : A -> option N) now l x :
  tsorted ts now l -> ts x.2 = Some now -> tsorted ts now (l ++ [x]).
Proof.
  intros [H1 H2] Hx. split.
  - induction l as [|y l IH]; cbn [app].
    + repeat constructor.
    + apply StronglySorted_inv in H1 as [H1 Hall]. apply Forall_cons in H2 as [Hy H2].
      constructor; [by apply IH|]. apply Forall_app. split; [done|].
      constructor; [|constructor]. unfold ts_le. rewrite Hx. cbn [opt_default]. done.
  - apply Forall_app. split; [done|]. constructor; [|constructor]. rewrite Hx. cbn [opt_default]. lia.
Qed.

Lemma tsorted_tail {A} (ts : A -> option N) now x l : tsorted ts now (x :: l) -> tsorted ts now l.
Proof. apply tsorted_sublist. by apply sublist_cons. Qed.

Lemma expired_at_front d ts0 ts1 now :
  expired_at d ts0 now = false -> (d <> None -> is_Some ts0) -> ts_le ts0 ts1 ->
  expired_at d ts1 now = false.
Proof.
  unfold expired_at, ts_le. intros H0 Hs Hle. destruct d as [d|]; [|by destruct ts1].
  destruct (Hs ltac:(done)) as [t0 ->]. destruct ts1 as [t1|]; [|done]. cbn [opt_default] in Hle.
  apply N.leb_gt in H0. apply N.leb_gt. lia.
Qed.

Lemma expired_at_mono d ts now now' :
  now <= now' -> expired_at d ts now = true -> expired_at d ts now' = true.
Proof.
  unfold expired_at. intros Hle. destruct ts as [t|]; [|done]. destruct d as [d|]; [|done].
  intros H. apply N.leb_le in H. apply N.leb_le. lia.
Qed.

(** * Expiry of an entry as a pure function *)
Definition lm_of (s : ustate) (e : uentry) : option N :=
  match ue_wo e with
  | Some n => match find_id n (u_wo s) with Some nd => wn_ts nd | None => None end
  | None => None
  end.

Definition la_of (s : ustate) (e : uentry) : option N :=
  match ue_ao e with
  | Some n => match find_id n (u_prob s) with Some nd => an_ts nd | None => None end
  | None => None
  end.

Definition dead (c : ucfg) (s : ustate) (now : N) (e : uentry) : bool :=
  expired_at (uc_ttl c) (lm_of s e) now || expired_at (uc_tti c) (la_of s e) now.

Definition deadk (c : ucfg) (s : ustate) (now : N) (k : N) : bool :=
  match u_map s !! k with Some e => dead c s now e | None => false end.

Lemma wfs_la_of c s k e :
  WFs c None s -> u_map s !! k = Some e ->
  exists n nd, ue_ao e = Some n /\ (n, nd) ∈ u_prob s /\ an_key nd = k /\ la_of s e = an_ts nd.
Proof.
  intros W He. destruct (ws_map_ao _ _ _ W _ _ He ltac:(done)) as (n & nd & Hao & Hin & Hk & _).
  exists n, nd. do 3 (split; [done|]). unfold la_of.
  by rewrite Hao, (elem_find_id _ _ _ (ws_nodup_ao _ _ _ W) Hin).
Qed.

Lemma wfs_lm_of c s k e :
  WFs c None s -> u_map s !! k = Some e ->
  (uc_ttl c = None /\ ue_wo e = None /\ lm_of s e = None) \/
  (uc_ttl c <> None /\ exists n nd, ue_wo e = Some n /\ (n, nd) ∈ u_wo s /\ wn_key nd = k /\ lm_of s e = wn_ts nd).
Proof.
  intros W He. pose proof (ws_map_wo _ _ _ W _ _ He ltac:(done)) as Hwo.
  destruct (uc_ttl c) as [ttl|].
  - right. split; [done|]. destruct Hwo as (n & nd & Hwo & Hin & Hk). exists n, nd.
    do 3 (split; [done|]). unfold lm_of.
    by rewrite Hwo, (elem_find_id _ _ _ (ws_nodup_wo _ _ _ W) Hin).
  - left. split; [done|]. split; [done|]. unfold lm_of. by rewrite Hwo.
Qed.

Lemma entry_expired_dead c s k e now :
  WFs c None s -> u_map s !! k = Some e -> entry_expired c s e now = Ok (dead c s now e).
Proof.
  intros W He. unfold entry_expired, dead.
  assert (Hlm : entry_lm s e = Ok (lm_of s e)).
  { unfold entry_lm, lm_of.
    destruct (wfs_lm_of _ _ _ _ W He) as [(_ & -> & _)|(_ & n & nd & -> & Hin & _)]; [done|].
    by rewrite (elem_find_id _ _ _ (ws_nodup_wo _ _ _ W) Hin). }
  assert (Hla : entry_la s e = Ok (la_of s e)).
  { unfold entry_la, la_of. destruct (wfs_la_of _ _ _ _ W He) as (n & nd & -> & Hin & _).
    by rewrite (elem_find_id _ _ _ (ws_nodup_ao _ _ _ W) Hin). }
  rewrite Hlm. cbn [rbind]. destruct (expired_at (uc_ttl c) _ _); [done|].
  rewrite Hla. cbn [rbind]. done.
Qed.

Lemma dead_mono c s now now' e : now <= now' -> dead c s now e = true -> dead c s now' e = true.
Proof.
  unfold dead. intros Hle H. apply orb_true_iff in H as [H|H]; apply orb_true_iff;
    [left|right]; by eapply expired_at_mono.
Qed.

(** * Removing a set of keys, declaratively *)
Definition rm_rel (D : N -> bool) (s s1 : ustate) : Prop :=
  (forall k, u_map s1 !! k = if D k then None else u_map s !! k) /\
  u_prob s1 = filter (fun x => D (an_key x.2) = false) (u_prob s) /\
  u_wo s1 = filter (fun x => D (wn_key x.2) = false) (u_wo s) /\
  u_sk s1 = u_sk s /\ u_skon s1 = u_skon s /\ u_next s1 = u_next s.

Lemma rm_rel_refl s : rm_rel (fun _ => false) s s.
Proof. split; [done|]. split; [|split; [|done]]; symmetry; by apply filter_all. Qed.

Lemma rm_rel_ext c D D' s s1 :
  WFs c None s -> (forall k, is_Some (u_map s !! k) -> D k = D' k) ->
  rm_rel D s s1 -> rm_rel D' s s1.
Proof.
  intros W Hd (Hm & Hp & Hw & Hr). split; [|split; [|split; [|done]]].
  - intros k. rewrite Hm. destruct (u_map s !! k) as [e|] eqn:E.
    + by rewrite (Hd k ltac:(by rewrite E)).
    + by destruct (D k), (D' k).
  - rewrite Hp. apply filter_ext_in. intros [n nd] Hin. cbn [snd].
    destruct (ws_ao_map _ _ _ W _ _ Hin) as (e & He & _). by rewrite (Hd _ ltac:(by rewrite He)).
  - rewrite Hw. apply filter_ext_in. intros [n nd] Hin. cbn [snd].
    destruct (ws_wo_map _ _ _ W _ _ Hin) as (_ & e & He & _). by rewrite (Hd _ ltac:(by rewrite He)).
Qed.

Lemma rm_rel_trans D1 D2 s s1 s2 :
  rm_rel D1 s s1 -> rm_rel D2 s1 s2 -> rm_rel (fun k => D1 k || D2 k) s s2.
Proof.
  intros (Hm & Hp & Hw & A1 & A2 & A3) (Hm' & Hp' & Hw' & B1 & B2 & B3).
  split; [|split; [|split; [|repeat split; congruence]]].
  - intros k. rewrite Hm', Hm. by destruct (D1 k), (D2 k).
  - rewrite Hp', Hp, list_filter_filter. apply list_filter_iff. intros [n nd]. cbn [snd].
    destruct (D1 _), (D2 _); naive_solver.
  - rewrite Hw', Hw, list_filter_filter. apply list_filter_iff. intros [n nd]. cbn [snd].
    destruct (D1 _), (D2 _); naive_solver.
Qed.

Lemma rm_rel_counters D s s1 a b : rm_rel D s s1 -> rm_rel D s (set_ws (set_ec s1 a) b).
Proof. intros H. exact H. Qed.

Lemma WF_ext c s s' :
  WF c s -> WF c s' -> u_map s = u_map s' -> u_prob s = u_prob s' -> u_wo s = u_wo s' ->
  u_sk s = u_sk s' -> u_skon s = u_skon s' -> u_next s = u_next s' -> s = s'.
Proof.
  intros W W' Hm Hp Hw Hsk Hon Hn.
  pose proof (wf_ec _ _ W) as E1. pose proof (wf_ec _ _ W') as E1'.
  pose proof (wf_ws _ _ W) as E2. pose proof (wf_ws _ _ W') as E2'.
  destruct s, s'. cbn in *. subst. done.
Qed.

Lemma rm_rel_fun c D s s1 s2 : rm_rel D s s1 -> rm_rel D s s2 -> WF c s1 -> WF c s2 -> s1 = s2.
Proof.
  intros (Hm & Hp & Hw & A1 & A2 & A3) (Hm' & Hp' & Hw' & B1 & B2 & B3) W1 W2.
  apply (WF_ext c); try done; try congruence.
  apply map_eq. intros k. by rewrite Hm, Hm'.
Qed.

Lemma unlink_entry_inv s e s1 :
  unlink_entry s e = Ok s1 ->
  u_map s1 = u_map s /\
  u_prob s1 = match ue_ao e with Some n => remove_id n (u_prob s) | None => u_prob s end /\
  u_wo s1 = match ue_wo e with Some n => remove_id n (u_wo s) | None => u_wo s end /\
  u_ec s1 = u_ec s /\ u_ws s1 = u_ws s /\ u_sk s1 = u_sk s /\ u_skon s1 = u_skon s /\ u_next s1 = u_next s.
Proof.
  unfold unlink_entry, deq_unlink. intros H.
  destruct (ue_ao e) as [n|], (ue_wo e) as [n2|];
    repeat match type of H with context [mem_id ?a ?b] => destruct (mem_id a b); cbn [rbind] in H; [|done] end;
    cbn [rbind] in H; injection H as <-; done.
Qed.

Lemma rm_rel_one c s k e s1 :
  WFs c None s -> u_map s !! k = Some e ->
  unlink_entry (UModel.set_map s (delete k (u_map s))) e = Ok s1 ->
  rm_rel (fun k' => k' =? k) s s1.
Proof.
  intros W He E. apply unlink_entry_inv in E as (Hm & Hp & Hw & _ & _ & Hsk & Hon & Hn). simpl_set.
  split; [|split; [|split; [|done]]].
  - intros k'. rewrite Hm. destruct (N.eqb_spec k' k) as [->|Hne];
      [apply lookup_delete|by apply lookup_delete_ne].
  - rewrite Hp. destruct (wfs_la_of _ _ _ _ W He) as (n & nd & Hao & Hin & Hk & _). rewrite Hao.
    apply remove_id_filter; [apply W|]. intros n' a Hin'. split.
    + intros Hka. destruct (ws_ao_map _ _ _ W _ _ Hin') as (e' & He' & Hao').
      rewrite Hka, He in He'. injection He' as <-. congruence.
    + intros ->. by rewrite (elem_unique _ _ _ _ (ws_nodup_ao _ _ _ W) Hin' Hin).
  - rewrite Hw. destruct (wfs_lm_of _ _ _ _ W He) as [(Httl & -> & _)|(_ & n & nd & Hwo & Hin & Hk & _)].
    + destruct (u_wo s) as [|[n nd] l] eqn:Ewo; [done|]. exfalso.
      destruct (ws_wo_map _ _ _ W n nd) as [Hbad _]; [rewrite Ewo; left|done].
    + rewrite Hwo. apply remove_id_filter; [apply W|]. intros n' a Hin'. split.
      * intros Hka. destruct (ws_wo_map _ _ _ W _ _ Hin') as (_ & e' & He' & Hwo').
        rewrite Hka, He in He'. injection He' as <-. congruence.
      * intros ->. by rewrite (elem_unique _ _ _ _ (ws_nodup_wo _ _ _ W) Hin' Hin).
Qed.

(** surviving entries keep their timestamps *)
Lemma rm_rel_ts c D s s1 k e :
  WFs c None s -> rm_rel D s s1 -> u_map s !! k = Some e -> D k = false ->
  lm_of s1 e = lm_of s e /\ la_of s1 e = la_of s e.
Proof.
  intros W (Hm & Hp & Hw & _) He Hd. split.
  - destruct (wfs_lm_of _ _ _ _ W He) as [(_ & Hwo & Hlm)|(_ & n & nd & Hwo & Hin & Hk & Hlm)].
    + rewrite Hlm. unfold lm_of. by rewrite Hwo.
    + rewrite Hlm. unfold lm_of. rewrite Hwo, Hw.
      rewrite (find_id_filter _ n nd); [done|apply W|done|]. cbn [snd]. by rewrite Hk.
  - destruct (wfs_la_of _ _ _ _ W He) as (n & nd & Hao & Hin & Hk & Hla).
    rewrite Hla. unfold la_of. rewrite Hao, Hp.
    rewrite (find_id_filter _ n nd); [done|apply W|done|]. cbn [snd]. by rewrite Hk.
Qed.

Lemma rm_rel_dead c D s s1 now k e :
  WFs c None s -> rm_rel D s s1 -> u_map s !! k = Some e -> D k = false ->
  dead c s1 now e = dead c s now e.
Proof.
  intros W R He Hd. destruct (rm_rel_ts _ _ _ _ _ _ W R He Hd) as [H1 H2].
  unfold dead. by rewrite H1, H2.
Qed.

(** * What the two purge loops remove *)
Definition D_wo (c : ucfg) (s : ustate) (now : N) (k : N) : bool :=
  match u_map s !! k with Some e => expired_at (uc_ttl c) (lm_of s e) now | None => false end.
Definition D_ao (c : ucfg) (s : ustate) (now : N) (k : N) : bool :=
  match u_map s !! k with Some e => expired_at (uc_tti c) (la_of s e) now | None => false end.

Lemma expired_at_None d now : expired_at d None now = false.
Proof. done. Qed.

Lemma D_wo_nil c s now k : u_wo s = [] -> D_wo c s now k = false.
Proof.
  intros H. unfold D_wo, lm_of. destruct (u_map s !! k) as [e|]; [|done].
  rewrite H. destruct (ue_wo e); done.
Qed.

Lemma D_ao_nil c s now k : u_prob s = [] -> D_ao c s now k = false.
Proof.
  intros H. unfold D_ao, la_of. destruct (u_map s !! k) as [e|]; [|done].
  rewrite H. destruct (ue_ao e); done.
Qed.

Lemma D_wo_front c s now nid nd rest k :
  WFs c None s -> u_wo s = (nid, nd) :: rest ->
  StronglySorted (fun x y => ts_le (wn_ts x.2) (wn_ts y.2)) (u_wo s) ->
  expired_at (uc_ttl c) (wn_ts nd) now = false -> D_wo c s now k = false.
Proof.
  intros W Ewo Hs Hex. unfold D_wo. destruct (u_map s !! k) as [e|] eqn:He; [|done].
  destruct (wfs_lm_of _ _ _ _ W He) as [(_ & _ & ->)|(_ & n & nd' & _ & Hin & _ & ->)]; [done|].
  assert (Hfront : (nid, nd) ∈ u_wo s) by (rewrite Ewo; left).
  rewrite Ewo in Hin, Hs. apply elem_of_cons in Hin as [[= -> ->]|Hin]; [done|].
  apply StronglySorted_inv in Hs as [_ Hall]. rewrite Forall_forall in Hall.
  specialize (Hall _ Hin). cbn [snd] in Hall.
  eapply expired_at_front; [exact Hex| |exact Hall]. intros _. by eapply ws_ts_wo.
Qed.

Lemma D_ao_front c s now nid nd rest k :
  WFs c None s -> u_prob s = (nid, nd) :: rest ->
  StronglySorted (fun x y => ts_le (an_ts x.2) (an_ts y.2)) (u_prob s) ->
  expired_at (uc_tti c) (an_ts nd) now = false -> D_ao c s now k = false.
Proof.
  intros W Ep Hs Hex. unfold D_ao. destruct (u_map s !! k) as [e|] eqn:He; [|done].
  destruct (wfs_la_of _ _ _ _ W He) as (n & nd' & _ & Hin & _ & ->).
  assert (Hfront : (nid, nd) ∈ u_prob s) by (rewrite Ep; left).
  rewrite Ep in Hin, Hs. apply elem_of_cons in Hin as [[= -> ->]|Hin]; [done|].
  apply StronglySorted_inv in Hs as [_ Hall]. rewrite Forall_forall in Hall.
  specialize (Hall _ Hin). cbn [snd] in Hall.
  eapply expired_at_front; [exact Hex| |exact Hall]. intros Htti.
  apply (ws_ts_ao _ _ _ W _ _ Hfront). unfold has_expiry. destruct (uc_ttl c), (uc_tti c); done.
Qed.

Lemma rwo_spec c fuel : forall s now cnt wt s' cnt' wt',
  WFs c None s -> (length (u_wo s) <= fuel)%nat ->
  StronglySorted (fun x y => ts_le (wn_ts x.2) (wn_ts y.2)) (u_wo s) ->
  remove_expired_wo c fuel s now cnt wt = Ok (s', cnt', wt') ->
  rm_rel (D_wo c s now) s s'.
Proof.
  induction fuel as [|fuel IH]; intros s now cnt wt s' cnt' wt' W Hlen Hs H; cbn [remove_expired_wo] in H.
  { injection H as <- _ _. eapply rm_rel_ext; [exact W| |apply rm_rel_refl].
    intros k _. symmetry. apply D_wo_nil. destruct (u_wo s); [done|cbn in Hlen; lia]. }
  destruct (u_wo s) as [|[nid nd] rest] eqn:Ewo.
  { injection H as <- _ _. eapply rm_rel_ext; [exact W| |apply rm_rel_refl].
    intros k _. symmetry. by apply D_wo_nil. }
  destruct (expired_at (uc_ttl c) (wn_ts nd) now) eqn:Hex.
  2:{ injection H as <- _ _. eapply rm_rel_ext; [exact W| |apply rm_rel_refl].
      intros k _. symmetry. eapply D_wo_front; eauto. by rewrite Ewo. }
  assert (Hin : (nid, nd) ∈ u_wo s) by (rewrite Ewo; left).
  destruct (ws_wo_map _ _ _ W _ _ Hin) as (_ & e & He & Hwo).
  rewrite He in H.
  destruct (evict_one _ _ _ _ _ W He ltac:(done)) as (s1 & E1 & W1 & Sh & Hm & _).
  rewrite E1 in H. cbn [rbind] in H.
  pose proof (unlink_entry_inv _ _ _ E1) as (_ & _ & Hw1 & _). simpl_set.
  rewrite Hwo, Ewo, remove_id_head in Hw1.
  apply IH in H; [|done|rewrite Hw1; cbn [length] in Hlen; lia|
                   rewrite Hw1; by apply StronglySorted_inv in Hs as [? _]].
  pose proof (rm_rel_one _ _ _ _ _ W He E1) as R1.
  eapply rm_rel_ext; [exact W| |exact (rm_rel_trans _ _ _ _ _ R1 H)].
  intros k [e' He']. cbn beta. destruct (N.eqb_spec k (wn_key nd)) as [->|Hne]; cbn [orb].
  - unfold D_wo. rewrite He. unfold lm_of. rewrite Hwo, Ewo. cbn [find_id]. by rewrite N.eqb_refl.
  - unfold D_wo. rewrite Hm, lookup_delete_ne by done. rewrite He'.
    destruct (rm_rel_ts _ _ _ _ _ _ W R1 He') as [-> _]; [|done]. by apply N.eqb_neq.
Qed.

Lemma rao_spec c fuel : forall s now cnt wt s' cnt' wt',
  WFs c None s -> (length (u_prob s) <= fuel)%nat ->
  StronglySorted (fun x y => ts_le (an_ts x.2) (an_ts y.2)) (u_prob s) ->
  remove_expired_ao c fuel s now cnt wt = Ok (s', cnt', wt') ->
  rm_rel (D_ao c s now) s s'.
Proof.
  induction fuel as [|fuel IH]; intros s now cnt wt s' cnt' wt' W Hlen Hs H; cbn [remove_expired_ao] in H.
  { injection H as <- _ _. eapply rm_rel_ext; [exact W| |apply rm_rel_refl].
    intros k _. symmetry. apply D_ao_nil. destruct (u_prob s); [done|cbn in Hlen; lia]. }
  destruct (u_prob s) as [|[nid nd] rest] eqn:Ep.
  { injection H as <- _ _. eapply rm_rel_ext; [exact W| |apply rm_rel_refl].
    intros k _. symmetry. by apply D_ao_nil. }
  destruct (expired_at (uc_tti c) (an_ts nd) now) eqn:Hex.
  2:{ injection H as <- _ _. eapply rm_rel_ext; [exact W| |apply rm_rel_refl].
      intros k _. symmetry. eapply D_ao_front; eauto. by rewrite Ep. }
  assert (Hin : (nid, nd) ∈ u_prob s) by (rewrite Ep; left).
  destruct (ws_ao_map _ _ _ W _ _ Hin) as (e & He & Hao).
  rewrite He in H.
  destruct (evict_one _ _ _ _ _ W He ltac:(done)) as (s1 & E1 & W1 & Sh & Hm & _).
  rewrite E1 in H. cbn [rbind] in H.
  pose proof (unlink_entry_inv _ _ _ E1) as (_ & Hp1 & _). simpl_set.
  rewrite Hao, Ep, remove_id_head in Hp1.
  apply IH in H; [|done|rewrite Hp1; cbn [length] in Hlen; lia|
                   rewrite Hp1; by apply StronglySorted_inv in Hs as [? _]].
  pose proof (rm_rel_one _ _ _ _ _ W He E1) as R1.
  eapply rm_rel_ext; [exact W| |exact (rm_rel_trans _ _ _ _ _ R1 H)].
  intros k [e' He']. cbn beta. destruct (N.eqb_spec k (an_key nd)) as [->|Hne]; cbn [orb].
  - unfold D_ao. rewrite He. unfold la_of. rewrite Hao, Ep. cbn [find_id]. by rewrite N.eqb_refl.
  - unfold D_ao. rewrite Hm, lookup_delete_ne by done. rewrite He'.
    destruct (rm_rel_ts _ _ _ _ _ _ W R1 He') as [_ ->]; [|done]. by apply N.eqb_neq.
Qed.

(** * The extra invariants: timestamp order and the key bound *)
Definition Sorted (c : ucfg) (s : ustate) (now : N) : Prop :=
  has_expiry c = true -> tsorted wn_ts now (u_wo s) /\ tsorted an_ts now (u_prob s).

Definition kb (s : ustate) : Prop :=
  forall k e, u_map s !! k = Some e -> k < U_EVICTION_BATCH_SIZE.

Lemma kb_len c s :
  WFs c None s -> kb s -> (length (u_prob s) <= batch_u)%nat /\ (length (u_wo s) <= batch_u)%nat.
Proof.
  intros W Hkb. split.
  - assert (H : N.of_nat (length ((fun x => an_key x.2) <$> u_prob s)) <= U_EVICTION_BATCH_SIZE).
    { apply nodup_bounded_length.
      - apply NoDup_fmap_2_strong; [|eapply NoDup_fmap_1, (ws_nodup_ao _ _ _ W)].
        intros [n nd] [n' nd'] Hin Hin' Hk. cbn [snd] in Hk.
        destruct (ws_ao_map _ _ _ W _ _ Hin) as (e & He & Hao).
        destruct (ws_ao_map _ _ _ W _ _ Hin') as (e' & He' & Hao').
        rewrite Hk, He' in He. injection He as <-. assert (n = n') by congruence. subst.
        f_equal. eapply elem_unique; [apply (ws_nodup_ao _ _ _ W)|done..].
      - intros k Hk. apply elem_of_list_fmap in Hk as ([n nd] & -> & Hin). cbn [snd].
        destruct (ws_ao_map _ _ _ W _ _ Hin) as (e & He & _). by eapply Hkb. }
    rewrite fmap_length in H. unfold batch_u. lia.
  - assert (H : N.of_nat (length ((fun x => wn_key x.2) <$> u_wo s)) <= U_EVICTION_BATCH_SIZE).
    { apply nodup_bounded_length.
      - apply NoDup_fmap_2_strong; [|eapply NoDup_fmap_1, (ws_nodup_wo _ _ _ W)].
        intros [n nd] [n' nd'] Hin Hin' Hk. cbn [snd] in Hk.
        destruct (ws_wo_map _ _ _ W _ _ Hin) as (_ & e & He & Hwo).
        destruct (ws_wo_map _ _ _ W _ _ Hin') as (_ & e' & He' & Hwo').
        rewrite Hk, He' in He. injection He as <-. assert (n = n') by congruence. subst.
        f_equal. eapply elem_unique; [apply (ws_nodup_wo _ _ _ W)|done..].
      - intros k Hk. apply elem_of_list_fmap in Hk as ([n nd] & -> & Hin). cbn [snd].
        destruct (ws_wo_map _ _ _ W _ _ Hin) as (_ & e & He & _). by eapply Hkb. }
    rewrite fmap_length in H. unfold batch_u. lia.
Qed.

Lemma shrinks_kb s s' : shrinks s s' -> kb s -> kb s'.
Proof.
  intros (Hm & _) Hkb k e He. eapply Hkb. eapply lookup_weaken; [exact He|exact Hm].
Qed.

Lemma shrinks_Sorted c s s' now : shrinks s s' -> Sorted c s now -> Sorted c s' now.
Proof.
  intros (_ & Hp & Hw & _) Hs Hex. destruct (Hs Hex) as [H1 H2].
  split; eapply tsorted_sublist; eauto.
Qed.

Lemma Sorted_mono c s now now' : now <= now' -> Sorted c s now -> Sorted c s now'.
Proof. intros Hle Hs Hex. destruct (Hs Hex) as [H1 H2]. split; eapply tsorted_mono; eauto. Qed.

Lemma has_expiry_ttl c : uc_ttl c <> None -> has_expiry c = true.
Proof. unfold has_expiry. by destruct (uc_ttl c), (uc_tti c). Qed.
Lemma has_expiry_tti c : uc_tti c <> None -> has_expiry c = true.
Proof. unfold has_expiry. by destruct (uc_ttl c), (uc_tti c). Qed.

(** * The purge removes exactly the expired entries *)
Lemma evict_expired_spec c s now now0 s1 :
  cfg_ok c -> WF c s -> u_next s < 2 ^ 32 -> Sorted c s now0 -> kb s ->
  evict_expired c s now = Ok s1 ->
  rm_rel (deadk c s now) s s1 /\ WF c s1 /\ shrinks s s1.
Proof.
  intros Hc W Hn Hso Hkb H. unfold evict_expired in H.
  pose proof W as W0. apply WF_WFs in W0 as (W0 & _).
  destruct (kb_len _ _ W0 Hkb) as [Lp Lw].
  assert (H1 : exists sm,
    match uc_ttl c with
    | Some _ => '(s', cnt, wt) <-r remove_expired_wo c batch_u s now 0 0;
                ec <-r chk_sub (u_ec s') cnt;
                Ok (set_ws (set_ec s' ec) (sat_sub (u_ws s') wt))
    | None => Ok s
    end = Ok sm /\ WF c sm /\ shrinks s sm /\ rm_rel (D_wo c s now) s sm).
  { destruct (uc_ttl c) as [ttl|] eqn:Ettl.
    - pose proof (WF_small_big _ _ Hc W Hn) as Hb.
      destruct (remove_expired_wo_ok c batch_u s now 0 0 W0 Hb) as (s' & cnt' & wt' & E & P).
      rewrite E. cbn [rbind].
      destruct (finish_counts _ _ _ _ _ W P) as (ec & E2 & W2 & Sh2).
      rewrite E2. cbn [rbind]. eexists. split; [reflexivity|]. split; [done|]. split; [done|].
      apply rm_rel_counters. eapply rwo_spec in E; [| done | done |].
      + exact E.
      + apply Hso. apply has_expiry_ttl. by rewrite Ettl.
    - exists s. split; [done|]. split; [done|]. split; [apply shrinks_refl|].
      eapply rm_rel_ext; [exact W0| |apply rm_rel_refl]. intros k _. unfold D_wo.
      destruct (u_map s !! k); [|done]. rewrite Ettl. unfold expired_at. by destruct (lm_of s u). }
  destruct H1 as (sm & E1 & Wm & Shm & Rm). rewrite E1 in H. cbn [rbind] in H.
  pose proof Wm as Wm0. apply WF_WFs in Wm0 as (Wm0 & _).
  assert (H2 : rm_rel (D_ao c sm now) sm s1 /\ WF c s1 /\ shrinks sm s1).
  { destruct (uc_tti c) as [tti|] eqn:Etti.
    - assert (Hn1 : u_next sm < 2 ^ 32) by (by rewrite (shrinks_next _ _ Shm)).
      pose proof (WF_small_big _ _ Hc Wm Hn1) as Hb.
      destruct (remove_expired_ao_ok c batch_u sm now 0 0 Wm0 Hb) as (s' & cnt' & wt' & E & P).
      rewrite E in H. cbn [rbind] in H.
      destruct (finish_counts _ _ _ _ _ Wm P) as (ec & E2 & W2 & Sh2).
      rewrite E2 in H. cbn [rbind] in H. injection H as <-. split; [|done].
      apply rm_rel_counters. eapply rao_spec in E; [| done | |].
      + exact E.
      + destruct Shm as (_ & Hsub & _). apply sublist_length in Hsub. lia.
      + eapply (shrinks_Sorted c s sm now0 Shm Hso). apply has_expiry_tti. by rewrite Etti.
    - injection H as <-. split; [|split; [done|apply shrinks_refl]].
      eapply rm_rel_ext; [exact Wm0| |apply rm_rel_refl]. intros k _. unfold D_ao.
      destruct (u_map sm !! k); [|done]. rewrite Etti. unfold expired_at. by destruct (la_of sm u). }
  destruct H2 as (R2 & W1 & Sh1). split; [|split; [done|by eapply shrinks_trans]].
  eapply rm_rel_ext; [exact W0| |exact (rm_rel_trans _ _ _ _ _ Rm R2)].
  intros k [e He]. cbn beta. unfold deadk, D_wo. rewrite He. unfold dead.
  destruct (expired_at (uc_ttl c) (lm_of s e) now) eqn:Ewo; cbn [orb]; [done|].
  unfold D_ao. pose proof Rm as (Hmm & _). rewrite Hmm. unfold D_wo. rewrite He, Ewo.
  destruct (rm_rel_ts _ _ _ _ _ _ W0 Rm He) as [_ ->]; [|done].
  unfold D_wo. by rewrite He.
Qed.

(** * The per-state invariant used by the simulation *)
Definition Good (c : ucfg) (s : ustate) (now : N) : Prop :=
  WF' c s /\ small s /\ Sorted c s now /\ kb s.

Lemma Good_shrinks c s s' now : Good c s now -> WF c s' -> shrinks s s' -> Good c s' now.
Proof.
  intros (W & [Hn Hl] & Hso & Hkb) W' Sh. split; [by eapply shrinks_WF'|]. split.
  - split; [by rewrite (shrinks_next _ _ Sh)|by rewrite (shrinks_load _ _ Sh)].
  - split; [by eapply shrinks_Sorted|by eapply shrinks_kb].
Qed.

Lemma Good_mono c s now now' : now <= now' -> Good c s now -> Good c s now'.
Proof. intros Hle (W & Hsm & Hso & Hkb). split; [done|]. split; [done|]. split; [by eapply Sorted_mono|done]. Qed.

Lemma purge_ok c s now0 now :
  cfg_ok c -> Good c s now0 ->
  exists s1, evict_expired c s now = Ok s1 /\ rm_rel (deadk c s now) s s1 /\ WF c s1 /\ shrinks s s1 /\
    Good c s1 now0.
Proof.
  intros Hc G. pose proof G as (W & [Hn Hl] & Hso & Hkb).
  destruct (evict_expired_ok c s now Hc (WF'_WF _ _ W) Hn) as (s1 & E & W1 & Sh).
  destruct (evict_expired_spec c s now now0 s1 Hc (WF'_WF _ _ W) Hn Hso Hkb E) as (R & _ & _).
  exists s1. do 4 (split; [done|]). by eapply Good_shrinks.
Qed.

(** (a) purging earlier changes nothing for a later purge *)
Lemma purge_later c s now0 now now' s1 :
  cfg_ok c -> Good c s now0 -> now <= now' ->
  evict_expired c s now = Ok s1 -> evict_expired c s1 now' = evict_expired c s now'.
Proof.
  intros Hc G Hle E.
  destruct (purge_ok c s now0 now Hc G) as (s1' & E' & R1 & W1 & Sh1 & G1).
  rewrite E in E'. injection E' as <-.
  destruct (purge_ok c s now0 now' Hc G) as (t & Et & Rt & Wt & _).
  destruct (purge_ok c s1 now0 now' Hc G1) as (t1 & Et1 & Rt1 & Wt1 & _).
  rewrite Et, Et1. f_equal. pose proof G as (W & _).
  pose proof (WF'_WF _ _ W) as W0. apply WF_WFs in W0 as (W0 & _).
  eapply (rm_rel_fun c); [|exact Rt|done|done].
  eapply rm_rel_ext; [exact W0| |exact (rm_rel_trans _ _ _ _ _ R1 Rt1)].
  intros k [e He]. cbn beta. unfold deadk at 1 3. rewrite He.
  destruct (dead c s now e) eqn:Ed; cbn [orb].
  - symmetry. by eapply dead_mono.
  - assert (Hdk : deadk c s now k = false) by (unfold deadk; by rewrite He).
    unfold deadk. destruct R1 as (Hm & R1'). rewrite Hm, Hdk, He.
    eapply rm_rel_dead; [exact W0|exact (conj Hm R1')|done|done].
Qed.

(** (b) iteration does not see what a purge would remove *)
Definition live_list (c : ucfg) (s : ustate) (now : N) (l : list (N * uentry)) : list (N * N) :=
  omap (fun p => if dead c s now p.2 then None else Some (p.1, ue_val p.2)) l.

Lemma filter_live_eq c s now : forall l,
  WFs c None s -> (forall k e, (k, e) ∈ l -> u_map s !! k = Some e) ->
  filter_live c s now l = Ok (live_list c s now l).
Proof.
  induction l as [|[k e] l IH]; intros W Hl; cbn [filter_live]; [done|].
  rewrite (entry_expired_dead c s k e now W (Hl _ _ ltac:(left))). cbn [rbind].
  rewrite IH; [|done|intros k' e' H; apply Hl; by right]. cbn [rbind].
  unfold live_list. cbn [omap list_omap fst snd]. by destruct (dead c s now e).
Qed.

Lemma u_iter_eq c s now : WF c s -> u_iter c s now = Ok (live_list c s now (map_to_list (u_map s))).
Proof.
  intros W. apply WF_WFs in W as (W & _). unfold u_iter. apply filter_live_eq; [done|].
  intros k e H. by apply elem_of_map_to_list in H.
Qed.

Lemma iter_purge c s now0 now s1 :
  cfg_ok c -> Good c s now0 -> evict_expired c s now = Ok s1 -> u_iter c s1 now = u_iter c s now.
Proof.
  intros Hc G E.
  destruct (purge_ok c s now0 now Hc G) as (s1' & E' & R1 & W1 & Sh1 & G1).
  rewrite E in E'. injection E' as <-. pose proof G as (W & _).
  pose proof (WF'_WF _ _ W) as W0. rewrite (u_iter_eq c s now W0), (u_iter_eq c s1 now W1). f_equal.
  apply WF_WFs in W0 as (W0 & _).
  set (f := fun e => if dead c s now e then None else Some e).
  assert (Hm : u_map s1 = omap f (u_map s)).
  { apply map_eq. intros k. rewrite lookup_omap. destruct R1 as (Hm & _). rewrite Hm.
    unfold deadk. destruct (u_map s !! k) as [e|]; cbn; [|done]. unfold f. by destruct (dead c s now e). }
  rewrite Hm, gmap_to_list_omap.
  assert (Hl : forall k e, (k, e) ∈ map_to_list (u_map s) -> u_map s !! k = Some e).
  { intros k e H. by apply elem_of_map_to_list in H. }
  revert Hl. generalize (map_to_list (u_map s)). intros l.
  induction l as [|[k e] l IH]; intros Hl; [done|].
  unfold live_list in *. cbn [omap list_omap fst snd].
  specialize (IH ltac:(intros k' e' H; apply Hl; by right)).
  pose proof (Hl k e ltac:(left)) as He.
  unfold f at 1. destruct (dead c s now e) eqn:Ed; cbn [fmap option_fmap option_map]; [exact IH|].
  cbn [omap list_omap fst snd].
  rewrite (rm_rel_dead c _ s s1 now k e W0 R1 He); [|unfold deadk; by rewrite He].
  rewrite Ed. f_equal. exact IH.
Qed.

(** (c) predicate invalidation commutes with the purge *)
Lemma invalidate_keys_spec c : forall keys s cnt wt s' cnt' wt',
  WFs c None s -> invalidate_keys s keys cnt wt = Ok (s', cnt', wt') ->
  rm_rel (fun k => bool_decide (k ∈ keys)) s s'.
Proof.
  induction keys as [|k keys IH]; intros s cnt wt s' cnt' wt' W H; cbn [invalidate_keys] in H.
  { injection H as <- _ _. eapply rm_rel_ext; [exact W| |apply rm_rel_refl].
    intros k _. symmetry. apply bool_decide_eq_false_2, not_elem_of_nil. }
  destruct (u_map s !! k) as [e|] eqn:He.
  - destruct (evict_one _ _ _ _ _ W He ltac:(done)) as (s1 & E1 & W1 & _).
    rewrite E1 in H. cbn [rbind] in H. apply IH in H; [|done].
    pose proof (rm_rel_one _ _ _ _ _ W He E1) as R1.
    eapply rm_rel_ext; [exact W| |exact (rm_rel_trans _ _ _ _ _ R1 H)].
    intros k' _. cbn beta. destruct (N.eqb_spec k' k) as [->|Hne]; cbn [orb].
    + symmetry. apply bool_decide_eq_true_2. left.
    + apply bool_decide_ext. rewrite elem_of_cons. naive_solver.
  - apply IH in H; [|done]. eapply rm_rel_ext; [exact W| |exact H].
    intros k' [e' He']. apply bool_decide_ext. rewrite elem_of_cons.
    assert (k' <> k) by congruence. naive_solver.
Qed.

Definition P_of (p : N -> N -> bool) (s : ustate) (k : N) : bool :=
  match u_map s !! k with Some e => p k (ue_val e) | None => false end.

Lemma invalidate_if_spec c s p s2 :
  cfg_ok c -> WF' c s -> small s -> u_invalidate_if s p = Ok s2 ->
  rm_rel (P_of p s) s s2 /\ WF c s2 /\ shrinks s s2.
Proof.
  intros Hc W Hs H.
  destruct (u_invalidate_if_ok c s p Hc W Hs) as (s2' & E & W2 & _ & _ & Sh).
  rewrite H in E. injection E as <-. split; [|split; [apply W2|done]].
  pose proof (WF'_WF _ _ W) as W0. apply WF_WFs in W0 as (W0 & _).
  unfold u_invalidate_if in H.
  destruct (invalidate_keys s _ 0 0) as [[[s' cnt'] wt']|] eqn:E; cbn [rbind] in H; [|done].
  destruct (chk_sub (u_ec s') cnt'); cbn [rbind] in H; [|done]. injection H as <-.
  apply rm_rel_counters. apply (invalidate_keys_spec c) in E; [|done].
  eapply rm_rel_ext; [exact W0| |exact E].
  intros k [e He]. unfold P_of. rewrite He.
  apply eq_true_iff_eq. rewrite bool_decide_eq_true, elem_of_list_In, filter_In, He.
  rewrite <-elem_of_list_In. split; [by intros [_ ?]|]. intros Hp. split; [|done].
  apply elem_of_list_fmap. exists (k, e). split; [done|]. by apply elem_of_map_to_list.
Qed.

Lemma inv_if_purge c s now0 now p s1 s2 t :
  cfg_ok c -> Good c s now0 -> evict_expired c s now = Ok s1 ->
  u_invalidate_if s p = Ok s2 -> u_invalidate_if s1 p = Ok t ->
  evict_expired c s2 now = Ok t.
Proof.
  intros Hc G E E2 Et.
  destruct (purge_ok c s now0 now Hc G) as (s1' & E' & R1 & W1 & Sh1 & G1).
  rewrite E in E'. injection E' as <-.
  pose proof G as (W & Hs & _). pose proof G1 as (W1' & Hs1 & _).
  destruct (invalidate_if_spec c s p s2 Hc W Hs E2) as (Rp & W2 & Sh2).
  destruct (invalidate_if_spec c s1 p t Hc W1' Hs1 Et) as (Rp1 & Wt & _).
  pose proof (Good_shrinks _ _ _ _ G W2 Sh2) as G2.
  destruct (purge_ok c s2 now0 now Hc G2) as (t' & Et' & Rt' & Wt' & _).
  rewrite Et'. f_equal.
  pose proof (WF'_WF _ _ W) as W0. apply WF_WFs in W0 as (W0 & _).
  eapply (rm_rel_fun c _ s); [| |done|done].
  - eapply rm_rel_ext; [exact W0| |exact (rm_rel_trans _ _ _ _ _ Rp Rt')].
    intros k [e He]. cbn beta. instantiate (1 := fun k => deadk c s now k || P_of p s k). cbn beta.
    destruct (P_of p s k) eqn:Ep; cbn [orb]; [by rewrite orb_true_r|]. rewrite orb_false_r.
    unfold deadk. destruct Rp as (Hm & Rp'). rewrite Hm, Ep, He.
    eapply rm_rel_dead; [exact W0|exact (conj Hm Rp')|done|done].
  - eapply rm_rel_ext; [exact W0| |exact (rm_rel_trans _ _ _ _ _ R1 Rp1)].
    intros k [e He]. cbn beta. destruct (deadk c s now k) eqn:Ed; cbn [orb]; [done|].
    unfold P_of. destruct R1 as (Hm & _). by rewrite Hm, Ed.
Qed.

(** * How one operation moves the deques and the key set *)
Definition dq_step {A} (tsf : A -> option N) (now : N) (l l' : list (N * A)) : Prop :=
  exists l0, sublist l0 l /\ (l' = l0 \/ exists x, l' = l0 ++ [x] /\ tsf x.2 = Some now).

Lemma dq_step_refl {A} (tsf : A -> option N) now l : dq_step tsf now l l.
Proof. exists l. split; [done|by left]. Qed.

Lemma dq_step_sublist {A} (tsf : A -> option N) now l l' : sublist l' l -> dq_step tsf now l l'.
Proof. intros H. exists l'. split; [done|by left]. Qed.

Lemma dq_step_sub {A} (tsf : A -> option N) now l1 l l' :
  sublist l1 l -> dq_step tsf now l1 l' -> dq_step tsf now l l'.
Proof. intros Hs (l0 & H0 & H). exists l0. split; [by etrans|done]. Qed.

Lemma dq_step_push {A} (tsf : A -> option N) now l x :
  tsf x.2 = Some now -> dq_step tsf now l (l ++ [x]).
Proof. intros H. exists l. split; [done|]. right. by exists x. Qed.

Lemma tsorted_step {A} (tsf : A -> option N) now l l' :
  tsorted tsf now l -> dq_step tsf now l l' -> tsorted tsf now l'.
Proof.
  intros Hs (l0 & H0 & [->|(x & -> & Hx)]); [by eapply tsorted_sublist|].
  apply tsorted_snoc; [by eapply tsorted_sublist|done].
Qed.

Lemma touch_list {A} (tsf : A -> option N) now n f (l : list (N * A)) a :
  find_id n (update_id n f l) = Some a -> (forall b, tsf (f b) = Some now) ->
  dq_step tsf now l (remove_id n (update_id n f l) ++ [(n, a)]).
Proof.
  rewrite find_id_update_id, remove_id_update_id. intros H Hf.
  destruct (find_id n l) as [b|]; [|done]. injection H as <-.
  exists (remove_id n l). split; [apply remove_id_sublist|]. right. exists (n, f b). split; [done|apply Hf].
Qed.

Definition frame (c : ucfg) (now : N) (K : option N) (s s' : ustate) : Prop :=
  (forall k' e', u_map s' !! k' = Some e' -> is_Some (u_map s !! k') \/ K = Some k') /\
  (has_expiry c = true ->
     dq_step an_ts now (u_prob s) (u_prob s') /\ dq_step wn_ts now (u_wo s) (u_wo s')).

Lemma frame_shrinks c now K s s' : shrinks s s' -> frame c now K s s'.
Proof.
  intros (Hm & Hp & Hw & _). split.
  - intros k' e' H. left. exists e'. eapply lookup_weaken; eauto.
  - intros _. split; by apply dq_step_sublist.
Qed.

Lemma frame_inv c now K s s' :
  frame c now K s s' -> (forall k, K = Some k -> k < U_EVICTION_BATCH_SIZE) ->
  Sorted c s now -> kb s -> Sorted c s' now /\ kb s'.
Proof.
  intros [Hm Hd] HK Hso Hkb. split.
  - intros Hex. destruct (Hso Hex) as [S1 S2]. destruct (Hd Hex) as [D1 D2].
    split; eapply tsorted_step; eauto.
  - intros k' e' H. destruct (Hm _ _ H) as [[e He]|HK']; [by eapply Hkb|by apply HK].
Qed.

(** shrink, then a step *)
Lemma frame_after_shrinks c now K s s1 s' :
  shrinks s s1 -> frame c now K s1 s' -> frame c now K s s'.
Proof.
  intros (Hm & Hp & Hw & _) [Fm Fd]. split.
  - intros k' e' H. destruct (Fm _ _ H) as [[e He]|?]; [left|by right].
    exists e. eapply lookup_weaken; eauto.
  - intros Hex. destruct (Fd Hex) as [D1 D2]. split; eapply dq_step_sub; eauto.
Qed.

(** inversion of the primitives (no invariant needed) *)
Lemma move_to_back_ao_inv s e s' :
  move_to_back_ao s e = Ok s' ->
  u_map s' = u_map s /\ u_wo s' = u_wo s /\
  match ue_ao e with
  | Some n => exists a, find_id n (u_prob s) = Some a /\ u_prob s' = remove_id n (u_prob s) ++ [(n, a)]
  | None => u_prob s' = u_prob s
  end.
Proof.
  unfold move_to_back_ao, deq_move_to_back. destruct (ue_ao e) as [n|]; [|by intros [= <-]].
  destruct (find_id n (u_prob s)) as [a|]; cbn [rbind]; [|done]. intros [= <-]. simpl_set. eauto.
Qed.

Lemma move_to_back_wo_inv s e s' :
  move_to_back_wo s e = Ok s' ->
  u_map s' = u_map s /\ u_prob s' = u_prob s /\
  exists n a, ue_wo e = Some n /\ find_id n (u_wo s) = Some a /\ u_wo s' = remove_id n (u_wo s) ++ [(n, a)].
Proof.
  unfold move_to_back_wo, deq_move_to_back. destruct (ue_wo e) as [n|]; [|done].
  destruct (find_id n (u_wo s)) as [a|] eqn:Ef; cbn [rbind]; [|done]. intros [= <-]. simpl_set.
  split; [done|]. split; [done|]. exists n, a. done.
Qed.

Lemma set_last_accessed_inv s e t s' :
  set_last_accessed s e t = Ok s' ->
  u_map s' = u_map s /\ u_wo s' = u_wo s /\
  u_prob s' = match ue_ao e with
              | Some n => update_id n (fun nd => mkAo (an_key nd) (an_hash nd) (Some t)) (u_prob s)
              | None => u_prob s
              end.
Proof.
  unfold set_last_accessed. destruct (ue_ao e) as [n|]; [|by intros [= <-]].
  destruct (mem_id n (u_prob s)); [|done]. by intros [= <-].
Qed.

Lemma set_last_modified_inv s e t s' :
  set_last_modified s e t = Ok s' ->
  u_map s' = u_map s /\ u_prob s' = u_prob s /\
  u_wo s' = match ue_wo e with
            | Some n => update_id n (fun nd => mkWo (wn_key nd) (Some t)) (u_wo s)
            | None => u_wo s
            end.
Proof.
  unfold set_last_modified. destruct (ue_wo e) as [n|]; [|by intros [= <-]].
  destruct (mem_id n (u_wo s)); [|done]. by intros [= <-].
Qed.

Lemma push_candidate_inv c s k h w ts s' :
  push_candidate c s k h w ts = Ok s' ->
  (forall k', is_Some (u_map s' !! k') -> is_Some (u_map s !! k')) /\
  u_prob s' = u_prob s ++ [(u_next s, mkAo k h ts)] /\
  (u_wo s' = u_wo s \/ u_wo s' = u_wo s ++ [(u_next s + 1, mkWo k ts)]).
Proof.
  unfold push_candidate. destruct (u_map s !! k) as [e|] eqn:He; [|done].
  destruct (uc_ttl c); intros [= <-]; simpl_set.
  - split; [|split; [done|by right]]. intros k' H.
    destruct (decide (k' = k)) as [->|Hne]; [by rewrite He|by rewrite lookup_insert_ne in H].
  - split; [|split; [done|by left]]. intros k' H.
    destruct (decide (k' = k)) as [->|Hne]; [by rewrite He|by rewrite lookup_insert_ne in H].
Qed.

Lemma remove_victims_inv : forall victims s s',
  remove_victims s victims = Ok s' ->
  u_map s' ⊆ u_map s /\ sublist (u_prob s') (u_prob s) /\ sublist (u_wo s') (u_wo s).
Proof.
  induction victims as [|nid rest IH]; intros s s' H; cbn [remove_victims] in H.
  { by injection H as <-. }
  destruct (find_id nid (u_prob s)) as [nd|]; [|done].
  destruct (u_map s !! an_key nd) as [e|]; [|done].
  destruct (unlink_entry _ e) as [s1|] eqn:E1; cbn [rbind] in H; [|done].
  destruct (chk_sub (u_ec s1) 1) as [ec|]; cbn [rbind] in H; [|done].
  apply IH in H as (Hm & Hp & Hw). simpl_set.
  apply unlink_entry_inv in E1 as (Hm1 & Hp1 & Hw1 & _). simpl_set.
  split; [|split].
  - etrans; [exact Hm|]. rewrite Hm1. apply delete_subseteq.
  - etrans; [exact Hp|]. rewrite Hp1. destruct (ue_ao e); [apply remove_id_sublist|done].
  - etrans; [exact Hw|]. rewrite Hw1. destruct (ue_wo e); [apply remove_id_sublist|done].
Qed.

Lemma maybe_enable_sketch_inv c s :
  u_map (maybe_enable_sketch c s) = u_map s /\ u_prob (maybe_enable_sketch c s) = u_prob s /\
  u_wo (maybe_enable_sketch c s) = u_wo s.
Proof.
  unfold maybe_enable_sketch, enable_sketch. destruct (should_enable_sketch c s); [|done].
  destruct (uc_cap c); done.
Qed.

Lemma handle_update_frame c s k ts w old s' :
  handle_update c s k ts w old = Ok s' -> (uc_ttl c = None -> ue_wo old = None) ->
  (forall k', is_Some (u_map s' !! k') -> is_Some (u_map s !! k')) /\
  (forall t, ts = Some t ->
     dq_step an_ts t (u_prob s) (u_prob s') /\ dq_step wn_ts t (u_wo s) (u_wo s')).
Proof.
  unfold handle_update. intros H Hold.
  destruct (u_map s !! k) as [e0|] eqn:He0; [|done].
  set (e := mkUE (ue_val e0) w (ue_ao old) (ue_wo old)) in *.
  set (s1 := UModel.set_map s (<[k:=e]> (u_map s))) in *.
  destruct (match ts with Some t => _ | None => _ end) as [s2|] eqn:E2; cbn [rbind] in H; [|done].
  destruct (move_to_back_ao s2 e) as [s3|] eqn:E3; cbn [rbind] in H; [|done].
  destruct (match uc_ttl c with Some _ => _ | None => _ end) as [s4|] eqn:E4; cbn [rbind] in H; [|done].
  injection H as <-. simpl_set.
  apply move_to_back_ao_inv in E3 as (M3 & W3 & P3). cbn [e ue_ao] in P3.
  assert (F2 : u_map s2 = u_map s1 /\
    (forall t, ts = Some t ->
       u_prob s2 = match ue_ao old with
                   | Some n => update_id n (fun nd => mkAo (an_key nd) (an_hash nd) (Some t)) (u_prob s)
                   | None => u_prob s end /\
       u_wo s2 = match ue_wo old with
                 | Some n => update_id n (fun nd => mkWo (wn_key nd) (Some t)) (u_wo s)
                 | None => u_wo s end)).
  { destruct ts as [t|].
    - destruct (set_last_accessed s1 e t) as [sa|] eqn:Ea; cbn [rbind] in E2; [|done].
      apply set_last_accessed_inv in Ea as (Ma & Wa & Pa).
      apply set_last_modified_inv in E2 as (Mb & Pb & Wb).
      split; [congruence|]. intros t' [= <-]. rewrite Pb, Pa, Wb, Wa. done.
    - injection E2 as <-. done. }
  destruct F2 as (M2 & D2).
  assert (F4 : u_map s4 = u_map s3 /\ u_prob s4 = u_prob s3 /\
    match uc_ttl c with
    | Some _ => exists n a, ue_wo old = Some n /\ find_id n (u_wo s3) = Some a /\
                  u_wo s4 = remove_id n (u_wo s3) ++ [(n, a)]
    | None => u_wo s4 = u_wo s3
    end).
  { destruct (uc_ttl c).
    - apply move_to_back_wo_inv in E4 as (? & ? & n' & a & ? & ? & ?).
      split; [done|]. split; [done|]. by exists n', a.
    - by injection E4 as <-. }
  destruct F4 as (M4 & P4 & W4).
  split.
  - intros k'. rewrite M4, M3, M2. subst s1. simpl_set.
    destruct (decide (k' = k)) as [->|Hne]; [by rewrite He0|by rewrite lookup_insert_ne].
  - intros t ->. destruct (D2 t eq_refl) as (P2 & W2). split.
    + rewrite P4. destruct (ue_ao old) as [m|].
      * destruct P3 as (a & Hf & ->). rewrite P2 in Hf |- *. by apply touch_list.
      * rewrite P3, P2. apply dq_step_refl.
    + rewrite W3 in W4. destruct (uc_ttl c).
      * destruct W4 as (m & a & Hwo & Hf & ->). rewrite W2, Hwo in Hf |- *. by apply touch_list.
      * rewrite W4, W2, (Hold eq_refl). apply dq_step_refl.
Qed.

Lemma handle_insert_frame c s k h w ts s' :
  handle_insert c s k h w ts = Ok s' ->
  (forall k', is_Some (u_map s' !! k') -> is_Some (u_map s !! k')) /\
  (forall t, ts = Some t ->
     dq_step an_ts t (u_prob s) (u_prob s') /\ dq_step wn_ts t (u_wo s) (u_wo s')).
Proof.
  unfold handle_insert. intros H.
  destruct (has_enough_capacity c w (u_ws s)) as [free|]; cbn [rbind] in H; [|done].
  (* the push tail shared by both admission paths *)
  assert (Hpush : forall s0 ws', 
    (forall k', is_Some (u_map s0 !! k') -> is_Some (u_map s !! k')) ->
    sublist (u_prob s0) (u_prob s) -> sublist (u_wo s0) (u_wo s) ->
    (s1 <-r push_candidate c s0 k h w ts;
     ec <-r chk_add64 (u_ec s1) 1;
     Ok (maybe_enable_sketch c (set_ws (set_ec s1 ec) (ws' s1)))) = Ok s' ->
    (forall k', is_Some (u_map s' !! k') -> is_Some (u_map s !! k')) /\
    (forall t, ts = Some t ->
       dq_step an_ts t (u_prob s) (u_prob s') /\ dq_step wn_ts t (u_wo s) (u_wo s'))).
  { intros s0 ws' Hm0 Hp0 Hw0 H0.
    destruct (push_candidate c s0 k h w ts) as [s1|] eqn:E1; cbn [rbind] in H0; [|done].
    destruct (chk_add64 (u_ec s1) 1) as [ec|]; cbn [rbind] in H0; [|done].
    injection H0 as <-.
    destruct (maybe_enable_sketch_inv c (set_ws (set_ec s1 ec) (ws' s1))) as (-> & -> & ->). simpl_set.
    apply push_candidate_inv in E1 as (Hm1 & Hp1 & Hw1). split.
    - intros k' Hk'. by apply Hm0, Hm1.
    - intros t ->. split.
      + rewrite Hp1. eapply dq_step_sub; [exact Hp0|]. by apply dq_step_push.
      + destruct Hw1 as [->| ->]; [by apply dq_step_sublist|].
        eapply dq_step_sub; [exact Hw0|]. by apply dq_step_push. }
  assert (Hrej : (forall k', is_Some (u_map (UModel.set_map s (delete k (u_map s))) !! k') -> is_Some (u_map s !! k')) /\
    (forall t, ts = Some t ->
       dq_step an_ts t (u_prob s) (u_prob (UModel.set_map s (delete k (u_map s)))) /\
       dq_step wn_ts t (u_wo s) (u_wo (UModel.set_map s (delete k (u_map s)))))).
  { simpl_set. split.
    - intros k' [e He]. apply lookup_delete_Some in He as [_ He]. by rewrite He.
    - intros t _. split; apply dq_step_refl. }
  destruct free.
  { apply (Hpush s (fun s1 => sat_add64 (u_ws s1) w)); done. }
  destruct (match uc_cap c with Some max => max <? w | None => false end).
  { by injection H as <-. }
  destruct (admit_loop c s (u_prob s) w _ 0 0 []) as [[[victims vw] vf]|]; cbn [rbind] in H; [|done].
  destruct ((w <=? vw) && (vf <? frequency (u_sk s) h)).
  2:{ by injection H as <-. }
  destruct (remove_victims s victims) as [s1|] eqn:E1; cbn [rbind] in H; [|done].
  apply remove_victims_inv in E1 as (Hm1 & Hp1 & Hw1).
  apply (Hpush s1 (fun s2 => sat_add64 (sat_sub (u_ws s2) vw) w)); try done.
  intros k' [e He]. exists e. eapply lookup_weaken; eauto.
Qed.

Lemma u_insert_frame c s now k v s' :
  cfg_ok c -> WF' c s -> small s -> u_insert c s now k v = Ok s' -> frame c now (Some k) s s'.
Proof.
  intros Hc W [Hn Hl] H.
  destruct (maintain_ok c s now Hc (WF'_WF _ _ W) Hn) as (s1 & E1 & W1 & Sh).
  unfold u_insert in H. rewrite E1 in H. cbn [rbind] in H.
  eapply frame_after_shrinks; [exact Sh|].
  set (s2 := UModel.set_map s1 _) in *.
  assert (Hm2 : forall k', is_Some (u_map s2 !! k') -> is_Some (u_map s1 !! k') \/ Some k = Some k').
  { intros k' Hk'. subst s2. simpl_set. destruct (decide (k' = k)) as [->|Hne]; [by right|].
    left. by rewrite lookup_insert_ne in Hk'. }
  assert (Hcl : forall s',
    (forall k', is_Some (u_map s' !! k') -> is_Some (u_map s2 !! k')) /\
    (forall t, (if has_expiry c then Some now else None) = Some t ->
       dq_step an_ts t (u_prob s2) (u_prob s') /\ dq_step wn_ts t (u_wo s2) (u_wo s')) ->
    frame c now (Some k) s1 s').
  { intros s'' [Hm Hd]. split.
    - intros k' e' He'. apply Hm2, Hm. by rewrite He'.
    - intros Hex. rewrite Hex in Hd. exact (Hd now eq_refl). }
  apply Hcl. destruct (u_map s1 !! k) as [old|] eqn:Hk.
  - eapply handle_update_frame; [exact H|]. intros Httl.
    pose proof (wf_map_wo _ _ W1 _ _ Hk) as Hwo. by rewrite Httl in Hwo.
  - eapply handle_insert_frame; exact H.
Qed.

Lemma u_get_frame c s now k s' v :
  cfg_ok c -> WF' c s -> small s -> u_get c s now k = Ok (s', v) -> frame c now None s s'.
Proof.
  intros Hc W [Hn Hl] H.
  destruct (maintain_ok c s now Hc (WF'_WF _ _ W) Hn) as (s1 & E1 & W1 & Sh).
  unfold u_get in H. rewrite E1 in H. cbn [rbind] in H.
  eapply frame_after_shrinks; [exact Sh|].
  destruct (increment (u_sk s1) (uc_hash c k)) as [sk'|]; cbn [rbind] in H; [|done].
  set (s2 := set_sk s1 sk' (u_skon s1)) in *.
  assert (Hbase : frame c now None s1 s2).
  { split; [intros k' e' He'; left; exists e'; exact He'|]. intros _. split; apply dq_step_refl. }
  destruct (u_map s2 !! k) as [e|] eqn:He.
  2:{ by injection H as <- _. }
  destruct (has_expiry c) eqn:Hex.
  - destruct (entry_expired c s2 e now) as [[|]|]; cbn [rbind] in H; [by injection H as <- _| |done].
    destruct (set_last_accessed s2 e now) as [s3|] eqn:E3; cbn [rbind] in H; [|done].
    destruct (move_to_back_ao s3 e) as [s4|] eqn:E4; cbn [rbind] in H; [|done].
    injection H as <- _.
    apply set_last_accessed_inv in E3 as (M3 & W3 & P3).
    apply move_to_back_ao_inv in E4 as (M4 & W4 & P4).
    split.
    + intros k' e' He'. left. rewrite M4, M3 in He'. exists e'. exact He'.
    + intros _. split.
      * destruct (ue_ao e) as [n|].
        -- destruct P4 as (a & Hf & ->). rewrite P3 in Hf |- *. by apply touch_list.
        -- rewrite P4, P3. apply dq_step_refl.
      * rewrite W4, W3. apply dq_step_refl.
  - destruct (move_to_back_ao s2 e) as [s3|] eqn:E3; cbn [rbind] in H; [|done].
    injection H as <- _. apply move_to_back_ao_inv in E3 as (M3 & _).
    split; [|intros ?; congruence]. intros k' e' He'. left. rewrite M3 in He'. exists e'. exact He'.
Qed.

(** * The invariant along a run (with a step budget, as in [urun_safe_from]) *)
Definition Inv (c : ucfg) (r : urun) (n : N) : Prop :=
  WF' c (ur_state r) /\
  u_next (ur_state r) + 2 * n < 2 ^ 32 /\ sk_load (ur_state r) + 4 * n < 2 ^ 27 /\
  Sorted c (ur_state r) (ur_now r) /\ kb (ur_state r).

Lemma Inv_Good c r n : Inv c r n -> Good c (ur_state r) (ur_now r).
Proof.
  intros (W & Hn & Hl & Hso & Hkb). split; [done|]. split; [|done].
  rewrite pow2_32 in Hn. rewrite pow2_27 in Hl. split; [rewrite pow2_32|rewrite pow2_27]; lia.
Qed.

Lemma Inv_weaken c r n : Inv c r (n + 1) -> Inv c r n.
Proof.
  intros (W & Hn & Hl & Hso & Hkb). split; [done|].
  rewrite pow2_32 in *. rewrite pow2_27 in *. split; [lia|]. split; [lia|]. done.
Qed.

Lemma Inv_step c r o n r' out :
  cfg_ok c -> Inv c r (n + 1) -> (forall k v, o = UInsert k v -> k < U_EVICTION_BATCH_SIZE) ->
  ustep c r o = Ok (r', out) -> Inv c r' n.
Proof.
  intros Hc I Hk E. pose proof (Inv_Good _ _ _ I) as (W & Hs & Hso & Hkb).
  destruct I as (_ & Hn & Hl & _).
  destruct (ustep_safe c r o Hc W Hs) as (r'' & out'' & E' & W' & Hn' & Hl' & Ht').
  rewrite E in E'. injection E' as <- <-.
  split; [done|]. rewrite pow2_32 in *. rewrite pow2_27 in *.
  split; [lia|]. split; [lia|].
  destruct r as [s now]. cbn [ur_state ur_now] in *.
  destruct o as [k v|k|k| |k| |p|d]; cbn [ustep ur_state ur_now] in E.
  - destruct (u_insert c s now k v) as [s'|] eqn:E1; cbn [rbind] in E; [|done].
    injection E as <- _. cbn [ur_state ur_now].
    eapply frame_inv; [eapply u_insert_frame; [exact Hc|exact W|exact Hs|exact E1]| |done|done].
    intros k' [= <-]. by eapply Hk.
  - destruct (u_get c s now k) as [[s' v]|] eqn:E1; cbn [rbind] in E; [|done].
    injection E as <- _. cbn [ur_state ur_now].
    eapply frame_inv; [eapply u_get_frame; [exact Hc|exact W|exact Hs|exact E1]|done|done|done].
  - destruct (u_contains c s now k) as [[s' b]|] eqn:E1; cbn [rbind] in E; [|done].
    injection E as <- _. cbn [ur_state ur_now].
    destruct (u_contains_frame _ _ _ _ _ _ E1) as (ts & Em).
    destruct Hs as [Hn0 _].
    destruct (maintain_ok c s now Hc (WF'_WF _ _ W) Hn0) as (s1 & Em1 & _ & Sh).
    rewrite Em in Em1. injection Em1 as <- _.
    split; [by eapply shrinks_Sorted|by eapply shrinks_kb].
  - destruct (u_iter c s now); cbn [rbind] in E; [|done]. by injection E as <- _.
  - destruct (u_invalidate c s now k) as [s'|] eqn:E1; cbn [rbind] in E; [|done].
    injection E as <- _. cbn [ur_state ur_now].
    destruct (u_invalidate_ok c s now k Hc W Hs) as (s1 & E1' & _ & _ & _ & Sh).
    rewrite E1 in E1'. injection E1' as <-.
    split; [by eapply shrinks_Sorted|by eapply shrinks_kb].
  - injection E as <- _. cbn [ur_state ur_now]. split.
    + intros _. split; apply tsorted_nil.
    + intros k e H. cbn in H. by rewrite lookup_empty in H.
  - destruct (u_invalidate_if s p) as [s'|] eqn:E1; cbn [rbind] in E; [|done].
    injection E as <- _. cbn [ur_state ur_now].
    destruct (u_invalidate_if_ok c s p Hc W Hs) as (s1 & E1' & _ & _ & _ & Sh).
    rewrite E1 in E1'. injection E1' as <-.
    split; [by eapply shrinks_Sorted|by eapply shrinks_kb].
  - injection E as <- _. cbn [ur_state ur_now]. split; [|done].
    eapply Sorted_mono; [|exact Hso]. lia.
Qed.

(** * The simulation relation: equal after the purge *)
Definition Rel (c : ucfg) (r r' : urun) : Prop :=
  ur_now r = ur_now r' /\
  evict_expired c (ur_state r) (ur_now r) = evict_expired c (ur_state r') (ur_now r).

Lemma Rel_refl c r : Rel c r r.
Proof. done. Qed.

Lemma evict_expired_noexp c s now : has_expiry c = false -> evict_expired c s now = Ok s.
Proof. unfold has_expiry, evict_expired. destruct (uc_ttl c), (uc_tti c); done. Qed.

Lemma maintain_rel c s s' now :
  evict_expired c s now = evict_expired c s' now -> maintain c s now = maintain c s' now.
Proof.
  intros H. unfold maintain, evict_expired_if_needed. destruct (has_expiry c) eqn:Hex.
  - by rewrite H.
  - rewrite !evict_expired_noexp in H by done. by injection H as ->.
Qed.

Lemma evict_lru_zero c s : weights_to_evict c s = 0 -> evict_lru_entries c s = Ok s.
Proof.
  intros H. unfold evict_lru_entries. rewrite H.
  assert (Hb : batch_u = S (Nat.pred batch_u)) by (vm_compute; reflexivity).
  rewrite Hb. cbn [evict_lru_loop]. change (0 <=? 0) with true. cbn [rbind].
  unfold chk_sub. rewrite (proj2 (N.leb_le 0 (u_ec s))) by lia. cbn [rbind].
  destruct s as [m p w ec ws sk on nx]. unfold set_ws, set_ec, sat_sub. cbn [u_map u_prob u_wo u_ec u_ws u_sk u_skon u_next].
  rewrite !N.sub_0_r. done.
Qed.

Lemma step_keep c r r' o r1 x r1' x' :
  cfg_ok c -> Good c (ur_state r) (ur_now r) -> Good c (ur_state r') (ur_now r') -> Rel c r r' ->
  ustep c r o = Ok (r1, x) -> ustep c r' o = Ok (r1', x') ->
  x = x' /\ Rel c r1 r1'.
Proof.
  intros Hc G G' [Hnow HR] E E'.
  destruct r as [s now], r' as [s' now']. cbn [ur_state ur_now] in *. subst now'.
  destruct (purge_ok c s now now Hc G) as (sp & Ep & Rp & Wp & Shp & Gp).
  pose proof HR as Ep'. rewrite Ep in Ep'. symmetry in Ep'.
  destruct (purge_ok c s' now now Hc G') as (sp' & Ep2 & _ & _ & Shp' & _).
  rewrite Ep' in Ep2. injection Ep2 as <-.
  destruct o as [k v|k|k| |k| |p|d]; cbn [ustep ur_state ur_now] in E, E'.
  - unfold u_insert in E, E'. rewrite (maintain_rel _ _ _ _ HR) in E. rewrite E in E'.
    injection E' as <- <-. clear E. split; [reflexivity|apply Rel_refl].
  - unfold u_get in E, E'. rewrite (maintain_rel _ _ _ _ HR) in E. rewrite E in E'.
    injection E' as <- <-. clear E. split; [reflexivity|apply Rel_refl].
  - unfold u_contains in E, E'. rewrite (maintain_rel _ _ _ _ HR) in E. rewrite E in E'.
    injection E' as <- <-. clear E. split; [reflexivity|apply Rel_refl].
  - rewrite <-(iter_purge c s now now sp Hc G Ep) in E.
    rewrite <-(iter_purge c s' now now sp Hc G' Ep') in E'.
    destruct (u_iter c sp now) as [l|]; cbn [rbind] in E, E'; [|discriminate E].
    injection E as <- <-. injection E' as <- <-. split; [reflexivity|]. split; [reflexivity|exact HR].
  - unfold u_invalidate in E, E'. rewrite (maintain_rel _ _ _ _ HR) in E. rewrite E in E'.
    injection E' as <- <-. clear E. split; [reflexivity|apply Rel_refl].
  - injection E as <- <-. injection E' as <- <-. split; [reflexivity|].
    assert (Heq : u_invalidate_all s = u_invalidate_all s'); [|rewrite Heq; apply Rel_refl].
    destruct Shp as (_ & _ & _ & A1 & A2 & A3). destruct Shp' as (_ & _ & _ & B1 & B2 & B3).
    unfold u_invalidate_all. f_equal; congruence.
  - destruct (u_invalidate_if s p) as [s2|] eqn:E2; cbn [rbind] in E; [|discriminate E].
    destruct (u_invalidate_if s' p) as [s2'|] eqn:E2'; cbn [rbind] in E'; [|discriminate E'].
    injection E as <- <-. injection E' as <- <-. split; [reflexivity|]. split; [reflexivity|].
    cbn [ur_state ur_now]. pose proof Gp as (Wp' & Hsp & _).
    destruct (u_invalidate_if_ok c sp p Hc Wp' Hsp) as (t & Et & _).
    rewrite (inv_if_purge c s now now p sp s2 t Hc G Ep E2 Et).
    rewrite (inv_if_purge c s' now now p sp s2' t Hc G' Ep' E2' Et). reflexivity.
  - injection E as <- <-. injection E' as <- <-. split; [reflexivity|]. split; [reflexivity|].
    cbn [ur_state ur_now].
    rewrite <-(purge_later c s now now (now + d) sp Hc G ltac:(lia) Ep).
    rewrite <-(purge_later c s' now now (now + d) sp Hc G' ltac:(lia) Ep'). reflexivity.
Qed.

Lemma step_add_contains c r r' k r1' x' :
  cfg_ok c -> Good c (ur_state r) (ur_now r) -> Good c (ur_state r') (ur_now r') -> Rel c r r' ->
  no_pending_excess c (ur_state r') (ur_now r') ->
  ustep c r' (UContains k) = Ok (r1', x') -> Rel c r r1'.
Proof.
  intros Hc G G' [Hnow HR] Hq E'.
  destruct r as [s now], r' as [s' now']. cbn [ur_state ur_now] in *. subst now'.
  destruct (purge_ok c s' now now Hc G') as (sp & Ep & _).
  cbn [ustep ur_state ur_now] in E'.
  destruct (u_contains c s' now k) as [[s1' b]|] eqn:E1; cbn [rbind] in E'; [|discriminate E'].
  injection E' as <- _. split; [reflexivity|]. cbn [ur_state ur_now].
  destruct (u_contains_frame _ _ _ _ _ _ E1) as (ts & Em).
  assert (s1' = sp) as ->.
  { pose proof (Hq _ Ep) as Hz. apply (evict_lru_zero c) in Hz.
    unfold maintain, evict_expired_if_needed in Em. destruct (has_expiry c) eqn:Hex.
    - rewrite Ep in Em. cbn [rbind] in Em. rewrite Hz in Em. cbn [rbind] in Em. by injection Em as <- _.
    - rewrite evict_expired_noexp in Ep by done. injection Ep as <-.
      cbn [rbind] in Em. rewrite Hz in Em. cbn [rbind] in Em. by injection Em as <- _. }
  rewrite HR, Ep. symmetry.
  rewrite (purge_later c s' now now now sp Hc G' ltac:(lia) Ep). exact Ep.
Qed.

Lemma urun_ops_cons c r o h r1 outs :
  urun_ops c r (o :: h) = Ok (r1, outs) ->
  exists ra x outs0, ustep c r o = Ok (ra, x) /\ urun_ops c ra h = Ok (r1, outs0) /\ outs = x :: outs0.
Proof.
  cbn [urun_ops]. destruct (ustep c r o) as [[ra x]|] eqn:E1; cbn [rbind]; [|done].
  destruct (urun_ops c ra h) as [[r2 outs0]|] eqn:E2; cbn [rbind]; [|done].
  intros [= <- <-]. exists ra, x, outs0. done.
Qed.

Lemma small_universe_tail o h : small_universe (o :: h) -> small_universe h.
Proof. intros H k v Hin. apply (H k v). by right. Qed.

Lemma small_universe_head o h k v : small_universe (o :: h) -> o = UInsert k v -> k < U_EVICTION_BATCH_SIZE.
Proof. intros H ->. apply (H k v). left. Qed.

(** * The simulation *)
Lemma purity_sim c rq h h' :
  cfg_ok c -> quiet_insertion c rq h h' ->
  forall r n r1 outs r2 outs',
    Inv c r n -> Inv c rq n -> N.of_nat (length h') <= n -> small_universe h' -> Rel c r rq ->
    urun_ops c r h = Ok (r1, outs) -> urun_ops c rq h' = Ok (r2, outs') ->
    outs_match_u h h' outs outs'.
Proof.
  intros Hc Q. induction Q as [rq|rq o h h' _ IH|rq o h h' Hobs Hq _ IH];
    intros r n r1 outs r2 outs' I Iq Hlen Hsu HR E E'.
  - cbn [urun_ops] in E, E'. injection E as _ <-. injection E' as _ <-. constructor.
  - apply urun_ops_cons in E as (ra & x & outs0 & Ea & E & ->).
    apply urun_ops_cons in E' as (rqa & x' & outs0' & Eqa & E' & ->).
    cbn [length] in Hlen. replace n with (n - 1 + 1) in I, Iq by lia.
    destruct (step_keep c r rq o ra x rqa x' Hc (Inv_Good _ _ _ I) (Inv_Good _ _ _ Iq) HR Ea Eqa) as [<- HR'].
    constructor. eapply (IH rqa x Eqa ra (n - 1)); try done.
    + eapply Inv_step; [done|exact I| |exact Ea]. intros k v ->. by eapply small_universe_head.
    + eapply Inv_step; [done|exact Iq| |exact Eqa]. intros k v ->. by eapply small_universe_head.
    + lia.
    + by eapply small_universe_tail.
  - apply urun_ops_cons in E' as (rqa & x' & outs0' & Eqa & E' & ->).
    cbn [length] in Hlen. replace n with (n - 1 + 1) in I, Iq by lia.
    constructor; [done|]. eapply (IH rqa x' Eqa r (n - 1)); try done.
    + by apply Inv_weaken.
    + eapply Inv_step; [done|exact Iq| |exact Eqa]. intros k v ->. discriminate Hobs.
    + lia.
    + by eapply small_universe_tail.
    + destruct o as [k v|k|k| |k| |p|d]; try discriminate Hobs.
      * eapply step_add_contains; [done|exact (Inv_Good _ _ _ I)|exact (Inv_Good _ _ _ Iq)|done| |exact Eqa].
        by eapply Hq.
      * by rewrite (u_iter_state _ _ _ _ Eqa).
Qed.

Theorem unsync_observations_pure : forall c h h' r1 outs r2 outs',
  cfg_ok c -> N.of_nat (length h') < 2 ^ 24 -> small_universe h' ->
  quiet_insertion c urun_init h h' ->
  urun_ops c urun_init h = Ok (r1, outs) ->
  urun_ops c urun_init h' = Ok (r2, outs') ->
  outs_match_u h h' outs outs'.
Proof.
  intros c h h' r1 outs r2 outs' Hc Hlen Hsu Q E E'. rewrite pow2_24 in Hlen.
  assert (I : Inv c urun_init (N.of_nat (length h'))).
  { split; [apply wf_init|]. cbn [urun_init ur_state ur_now u_init u_next].
    split; [rewrite pow2_32; lia|]. split.
    - rewrite pow2_27. unfold sk_load. cbn [urun_init ur_state u_init u_sk sk_empty sk_table].
      rewrite map_size_empty. lia.
    - split.
      + intros _. cbn [u_wo u_prob]. split; apply tsorted_nil.
      + intros k e H. cbn in H. by rewrite lookup_empty in H. }
  eapply (purity_sim c urun_init h h' Hc Q urun_init (N.of_nat (length h'))); try done.
Qed.

Print Assumptions unsync_observations_pure.
Print Assumptions unsync_contains_not_pure_with_pending_excess.
