(** Well-formedness invariant of the unsync cache model and the vocabulary the
    property theorems use.  Definitions only (proofs: UInv.v). *)
From MM Require Export Unsync.UModel Sketch.SketchSpec.

(** Sum of the policy weights physically held by the map. *)
Definition map_weight (m : gmap N uentry) : N :=
  map_fold (fun _ e acc => acc + ue_weight e) 0 m.

Definition map_count (m : gmap N uentry) : N := N.of_nat (size m).

(** Configuration side conditions: the weigher returns a u32 (it is a Rust
    `FnMut(&K,&V) -> u32`, modelled as a pure function) and the hasher a u64. *)
Definition cfg_ok (c : ucfg) : Prop :=
  (forall f k v, uc_wf c = Some f -> f k v < two32) /\
  (forall k, uc_hash c k < two64).

(** number of words of the sketch table that were ever touched *)
Definition sk_load (s : ustate) : N := N.of_nat (size (sk_table (u_sk s))).

Record WF (c : ucfg) (s : ustate) : Prop := mkWF {
  (* W1: node ids are unique in each deque and below the allocation counter *)
  wf_nodup_ao : NoDup (u_prob s).*1;
  wf_nodup_wo : NoDup (u_wo s).*1;
  wf_ids_ao : forall n nd, (n, nd) ∈ u_prob s -> n < u_next s;
  wf_ids_wo : forall n nd, (n, nd) ∈ u_wo s -> n < u_next s;
  (* W2: every map entry owns a live AO node with its key and hash *)
  wf_map_ao : forall k e, u_map s !! k = Some e ->
      exists n nd, ue_ao e = Some n /\ (n, nd) ∈ u_prob s /\ an_key nd = k /\ an_hash nd = uc_hash c k;
  (* W3: every AO node is the node of the map entry of its key (so no two nodes share a key) *)
  wf_ao_map : forall n nd, (n, nd) ∈ u_prob s ->
      exists e, u_map s !! an_key nd = Some e /\ ue_ao e = Some n;
  (* W4: the same for the write-order deque iff TTL is configured *)
  wf_map_wo : forall k e, u_map s !! k = Some e ->
      match uc_ttl c with
      | Some _ => exists n nd, ue_wo e = Some n /\ (n, nd) ∈ u_wo s /\ wn_key nd = k
      | None => ue_wo e = None
      end;
  wf_wo_map : forall n nd, (n, nd) ∈ u_wo s ->
      uc_ttl c <> None /\ exists e, u_map s !! wn_key nd = Some e /\ ue_wo e = Some n;
  (* W5: node timestamps are set iff expiry is configured *)
  wf_ts_ao : forall n nd, (n, nd) ∈ u_prob s -> (is_Some (an_ts nd) <-> has_expiry c = true);
  wf_ts_wo : forall n nd, (n, nd) ∈ u_wo s -> is_Some (wn_ts nd);
  (* W7: the counters equal what the map physically holds *)
  wf_ec : u_ec s = map_count (u_map s);
  wf_ws : u_ws s = map_weight (u_map s);
  (* W8: stored weights are what the weigher says *)
  wf_weight : forall k e, u_map s !! k = Some e -> ue_weight e = weigh c k (ue_val e);
  (* W10: the popularity sketch is well formed *)
  wf_sk : sk_wf (u_sk s)
}.

(** Resource bounds under which no checked arithmetic of a step can fail. *)
Definition small (s : ustate) : Prop := u_next s < 2 ^ 32 /\ sk_load s < 2 ^ 27.

(** Deque order as keys (front = least recently used). *)
Definition lru_keys (s : ustate) : list N := an_key <$> (u_prob s).*2.
Definition wo_keys (s : ustate) : list N := wn_key <$> (u_wo s).*2.

(** Over-capacity amount. *)
Definition over (c : ucfg) (s : ustate) : N :=
  match uc_cap c with Some cap => u_ws s - cap | None => 0 end.

(** The observable view of an entry: value, last-modified and last-accessed readings. *)
Definition cell_of (s : ustate) (e : uentry) : N * option N * option N :=
  (ue_val e,
   match ue_wo e with Some n => match find_id n (u_wo s) with Some nd => wn_ts nd | None => None end | None => None end,
   match ue_ao e with Some n => match find_id n (u_prob s) with Some nd => an_ts nd | None => None end | None => None end).

Definition cells (s : ustate) : gmap N (N * option N * option N) := cell_of s <$> u_map s.
