(** Eviction / admission policy of the unsync cache model (C03, C04, C12, C13):
    what exactly each operation does to the key -> value view, to the LRU order
    and to the weighted size.  Built on the well-formedness development UInv.v. *)
From MM Require Import Sketch.SketchProofs Unsync.UInv.
From MM Require Export Unsync.UPolicyDefs.
From Coq Require Import Lia.

Local Notation BIG := 18446744069414584320 (only parsing).
Local Notation nkey k := (fun x : N => negb (x =? k)).

(** * Lists *)
Lemma lfilter_all {A} (f : A -> bool) (l : list A) :
  (forall x, x ∈ l -> f x = true) -> List.filter f l = l.
Proof.
  induction l as [|a l IH]; intros H; cbn [List.filter]; [done|].
  rewrite (H a) by left. f_equal. apply IH. intros x Hx. apply H. by right.
Qed.

Lemma lfilter_lfilter {A} (f g : A -> bool) (l : list A) :
  List.filter f (List.filter g l) = List.filter (fun x => g x && f x) l.
Proof.
  induction l as [|a l IH]; cbn [List.filter]; [done|].
  destruct (g a); cbn [andb List.filter]; [destruct (f a)|]; by rewrite IH.
Qed.

Lemma lfilter_ext {A} (f g : A -> bool) (l : list A) :
  (forall x, x ∈ l -> f x = g x) -> List.filter f l = List.filter g l.
Proof.
  induction l as [|a l IH]; intros H; cbn [List.filter]; [done|].
  rewrite (H a) by left. rewrite IH; [done|]. intros x Hx. apply H. by right.
Qed.

Lemma nkey_true (x k : N) : x <> k -> negb (x =? k) = true.
Proof. intros H. by destruct (N.eqb_spec x k). Qed.

Lemma nkey_false (k : N) : negb (k =? k) = false.
Proof. by rewrite N.eqb_refl. Qed.

Lemma lfilter_nkey_notin (k : N) (l : list N) : k ∉ l -> List.filter (nkey k) l = l.
Proof. intros H. apply lfilter_all. intros x Hx. apply nkey_true. by intros ->. Qed.

(** * Maps *)
Lemma foldr_delete_comm {A} (ks : list N) (k : N) (m : gmap N A) :
  foldr delete (delete k m) ks = delete k (foldr delete m ks).
Proof.
  induction ks as [|a ks IH]; cbn [foldr]; [done|]. by rewrite IH, delete_commute.
Qed.

Lemma foldr_delete_insert {A} (ks : list N) (k : N) (x : A) (m : gmap N A) :
  k ∉ ks -> foldr delete (<[k:=x]> m) ks = <[k:=x]> (foldr delete m ks).
Proof.
  induction ks as [|a ks IH]; cbn [foldr]; [done|]. intros H.
  apply not_elem_of_cons in H as [Hne H]. rewrite IH by done. by rewrite delete_insert_ne.
Qed.

Lemma foldr_delete_fmap {A B} (f : A -> B) (ks : list N) (m : gmap N A) :
  f <$> foldr delete m ks = foldr delete (f <$> m) ks.
Proof. induction ks as [|a ks IH]; cbn [foldr]; [done|]. by rewrite fmap_delete, IH. Qed.

Lemma lookup_foldr_delete {A} (ks : list N) (m : gmap N A) (x : N) :
  foldr delete m ks !! x = if bool_decide (x ∈ ks) then None else m !! x.
Proof.
  induction ks as [|a ks IH]; cbn [foldr]; [done|].
  destruct (decide (a = x)) as [->|Hne].
  - rewrite lookup_delete. rewrite bool_decide_eq_true_2; [done|left].
  - rewrite lookup_delete_ne, IH by done.
    destruct (bool_decide (x ∈ ks)) eqn:E.
    + apply bool_decide_eq_true in E. rewrite bool_decide_eq_true_2; [done|by right].
    + apply bool_decide_eq_false in E. rewrite bool_decide_eq_false_2; [done|].
      intros H. apply elem_of_cons in H as [->|H]; done.
Qed.

Lemma map_weight_subseteq (m1 : gmap N uentry) : forall m2, m1 ⊆ m2 -> map_weight m1 <= map_weight m2.
Proof.
  induction m1 as [|k e m1 Hk IH] using map_ind; intros m2 H.
  - rewrite map_weight_empty. lia.
  - assert (H2 : m2 !! k = Some e).
    { eapply lookup_weaken; [|exact H]. apply lookup_insert. }
    rewrite (map_weight_delete _ _ _ H2), map_weight_insert by done.
    assert (map_weight m1 <= map_weight (delete k m2)); [|lia].
    apply IH. apply map_subseteq_spec. intros i x Hi.
    assert (i <> k) by (intros ->; congruence).
    rewrite lookup_delete_ne by done. eapply lookup_weaken; [|exact H]. by rewrite lookup_insert_ne.
Qed.

Lemma map_size_subseteq (m1 m2 : gmap N uentry) : m1 ⊆ m2 -> (size m1 <= size m2)%nat.
Proof.
  intros H. rewrite <-!(size_dom (D := gset N)). apply subseteq_size. by apply subseteq_dom.
Qed.

(** * Keys of the access-order deque *)
Definition keys_of (l : list (N * aonode)) : list N := an_key <$> l.*2.

Lemma lru_keys_eq s : lru_keys s = keys_of (u_prob s).
Proof. reflexivity. Qed.

Lemma keys_of_cons n nd l : keys_of ((n, nd) :: l) = an_key nd :: keys_of l.
Proof. reflexivity. Qed.

Lemma keys_of_app l k : keys_of (l ++ k) = keys_of l ++ keys_of k.
Proof. unfold keys_of. by rewrite !fmap_app. Qed.

Lemma keys_of_take n l : keys_of (take n l) = take n (keys_of l).
Proof. unfold keys_of. by rewrite !fmap_take. Qed.

Lemma keys_of_drop n l : keys_of (drop n l) = drop n (keys_of l).
Proof. unfold keys_of. by rewrite !fmap_drop. Qed.

Lemma keys_of_length l : length (keys_of l) = length l.
Proof. unfold keys_of. by rewrite !fmap_length. Qed.

Lemma elem_keys_of n nd l : (n, nd) ∈ l -> an_key nd ∈ keys_of l.
Proof.
  intros H. unfold keys_of. apply elem_of_list_fmap. exists nd. split; [done|].
  apply elem_of_list_fmap. by exists (n, nd).
Qed.

Lemma keys_of_elem k l : k ∈ keys_of l -> exists n nd, (n, nd) ∈ l /\ an_key nd = k.
Proof.
  unfold keys_of. intros H. apply elem_of_list_fmap in H as (nd & -> & H).
  apply elem_of_list_fmap in H as ([n nd'] & -> & H). by exists n, nd'.
Qed.

Lemma keys_remove_id n nd l :
  NoDup (keys_of l) -> find_id n l = Some nd ->
  keys_of (remove_id n l) = List.filter (nkey (an_key nd)) (keys_of l).
Proof.
  induction l as [|[m b] l IH]; cbn [find_id remove_id]; [done|].
  rewrite keys_of_cons. intros Hnd. apply NoDup_cons in Hnd as [Hnotin Hnd].
  destruct (N.eqb_spec m n) as [->|Hne].
  - intros [= ->]. cbn [List.filter]. rewrite nkey_false.
    symmetry. by apply lfilter_nkey_notin.
  - intros Hf. cbn [List.filter].
    rewrite nkey_true.
    + rewrite keys_of_cons. f_equal. by apply IH.
    + intros Heq. apply Hnotin. rewrite Heq. eapply elem_keys_of, find_id_Some_elem, Hf.
Qed.

Lemma keys_update_id n f l :
  (forall a, an_key (f a) = an_key a) -> keys_of (update_id n f l) = keys_of l.
Proof.
  intros Hf. induction l as [|[m b] l IH]; cbn [update_id]; [done|].
  destruct (N.eqb m n); rewrite !keys_of_cons; [by rewrite Hf|by rewrite IH].
Qed.

Lemma wfs_keys_nodup c pk s : WFs c pk s -> NoDup (lru_keys s).
Proof.
  intros W. unfold lru_keys. rewrite <-list_fmap_compose.
  apply NoDup_fmap_2_strong; [|eapply NoDup_fmap_1, (ws_nodup_ao _ _ _ W)].
  intros [n nd] [n' nd'] H H' Heq. cbn in Heq.
  destruct (ws_ao_map _ _ _ W _ _ H) as (e & E1 & E2).
  destruct (ws_ao_map _ _ _ W _ _ H') as (e' & E1' & E2').
  rewrite Heq, E1' in E1. injection E1 as <-. rewrite E2' in E2. injection E2 as ->.
  f_equal. eapply elem_unique; [apply (ws_nodup_ao _ _ _ W)|done..].
Qed.

Lemma wfs_key_in_map c pk s k : WFs c pk s -> k ∈ lru_keys s -> is_Some (u_map s !! k).
Proof.
  intros W H. apply keys_of_elem in H as (n & nd & H & <-).
  destruct (ws_ao_map _ _ _ W _ _ H) as (e & E & _). by eexists.
Qed.

Lemma wfs_notin_keys c pk s k : WFs c pk s -> u_map s !! k = None -> k ∉ lru_keys s.
Proof. intros W Hk H. destruct (wfs_key_in_map _ _ _ _ W H) as [e He]. congruence. Qed.

(** * (key, weight, popularity) triples *)
Definition tr_of (m : gmap N uentry) (sk : sketch) (nd : aonode) : N * N * N :=
  (an_key nd, match m !! an_key nd with Some e => ue_weight e | None => 0 end, frequency sk (an_hash nd)).

Definition triples_of (m : gmap N uentry) (sk : sketch) (l : list (N * aonode)) : list (N * N * N) :=
  tr_of m sk <$> l.*2.

Lemma lru_triples_eq c s : lru_triples c s = triples_of (u_map s) (u_sk s) (u_prob s).
Proof. reflexivity. Qed.

Lemma triples_of_cons m sk n nd l : triples_of m sk ((n, nd) :: l) = tr_of m sk nd :: triples_of m sk l.
Proof. reflexivity. Qed.

Lemma triples_of_take m sk n l : triples_of m sk (take n l) = take n (triples_of m sk l).
Proof. unfold triples_of. by rewrite !fmap_take. Qed.

Lemma triples_of_ext m m' sk l :
  (forall k, k ∈ keys_of l -> m' !! k = m !! k) -> triples_of m' sk l = triples_of m sk l.
Proof.
  induction l as [|[n nd] l IH]; intros H; [done|].
  rewrite !triples_of_cons. rewrite IH.
  - f_equal. unfold tr_of. rewrite H; [done|]. rewrite keys_of_cons. left.
  - intros k Hk. apply H. rewrite keys_of_cons. by right.
Qed.

Lemma triples_keys m sk l : (triples_of m sk l).*1.*1 = keys_of l.
Proof.
  induction l as [|[n nd] l IH]; [done|].
  rewrite triples_of_cons, keys_of_cons, !fmap_cons, IH. done.
Qed.

Lemma sum_w_cons t l : sum_w (t :: l) = t.1.2 + sum_w l.
Proof. reflexivity. Qed.

Lemma sum_f_cons t l : sum_f (t :: l) = t.2 + sum_f l.
Proof. reflexivity. Qed.

(** * Evicting the front (LRU) entry *)
Lemma evict_head c pk s nid nd rest e :
  WFs c pk s -> u_prob s = (nid, nd) :: rest -> u_map s !! an_key nd = Some e -> Some (an_key nd) <> pk ->
  exists s1, unlink_entry (UModel.set_map s (delete (an_key nd) (u_map s))) e = Ok s1 /\
    WFs c pk s1 /\ u_prob s1 = rest /\ u_map s1 = delete (an_key nd) (u_map s) /\
    u_ec s1 = u_ec s /\ u_ws s1 = u_ws s /\ u_sk s1 = u_sk s /\ u_skon s1 = u_skon s /\
    u_next s1 = u_next s /\ sublist (u_wo s1) (u_wo s) /\
    map_count (u_map s) = map_count (u_map s1) + 1 /\
    map_weight (u_map s) = map_weight (u_map s1) + ue_weight e /\
    an_key nd ∉ keys_of rest /\
    triples_of (u_map s1) (u_sk s1) rest = triples_of (u_map s) (u_sk s) rest.
Proof.
  intros W Hp He Hpk.
  assert (Hin : (nid, nd) ∈ u_prob s) by (rewrite Hp; left).
  destruct (ws_ao_map _ _ _ W _ _ Hin) as (e' & He' & Hao). rewrite He in He'. injection He' as <-.
  destruct (evict_one _ _ _ _ _ W He Hpk) as (s1 & E1 & W1 & Sh & Hm & Hec & Hws & Hpr & Hc1 & Hw1).
  specialize (Hpr _ Hao). rewrite Hp, remove_id_head in Hpr.
  destruct Sh as (_ & _ & Swo & Ssk & Sskon & Snx).
  assert (Hnotin : an_key nd ∉ keys_of rest).
  { pose proof (wfs_keys_nodup _ _ _ W) as Hnd. rewrite lru_keys_eq, Hp, keys_of_cons in Hnd.
    by apply NoDup_cons in Hnd as [? _]. }
  exists s1. do 12 (split; [done|]). split; [done|].
  rewrite Ssk, Hm. apply triples_of_ext. intros k Hk. apply lookup_delete_ne. by intros <-.
Qed.

(** * Size eviction: the exact effect of the LRU loop *)
Lemma evict_lru_loop_exact c fuel : forall s te cnt wt,
  WFs c None s -> map_weight (u_map s) + wt <= BIG ->
  exists n s' cnt' wt', evict_lru_loop fuel s te cnt wt = Ok (s', cnt', wt') /\
    cnt' = cnt + N.of_nat n /\ wt' = wt + sum_w (take n (lru_triples c s)) /\
    WFs c None s' /\ (n <= fuel)%nat /\ (n <= length (u_prob s))%nat /\
    u_prob s' = drop n (u_prob s) /\
    u_map s' = foldr delete (u_map s) (take n (lru_keys s)) /\
    u_ec s' = u_ec s /\ u_ws s' = u_ws s /\ u_sk s' = u_sk s /\ u_skon s' = u_skon s /\
    u_next s' = u_next s /\ sublist (u_wo s') (u_wo s) /\
    map_count (u_map s') + N.of_nat n = map_count (u_map s) /\
    map_weight (u_map s') + sum_w (take n (lru_triples c s)) = map_weight (u_map s) /\
    (n = 0%nat \/ wt + sum_w (take (n - 1) (lru_triples c s)) < te) /\
    (te <= wt + sum_w (take n (lru_triples c s)) \/ n = fuel \/ n = length (u_prob s)).
Proof.
  assert (Hstop : forall fuel s te cnt wt, WFs c None s ->
    (fuel = 0%nat \/ te <= wt \/ u_prob s = []) ->
    exists n s' cnt' wt', @Ok (ustate * N * N) (s, cnt, wt) = Ok (s', cnt', wt') /\
    cnt' = cnt + N.of_nat n /\ wt' = wt + sum_w (take n (lru_triples c s)) /\
    WFs c None s' /\ (n <= fuel)%nat /\ (n <= length (u_prob s))%nat /\
    u_prob s' = drop n (u_prob s) /\
    u_map s' = foldr delete (u_map s) (take n (lru_keys s)) /\
    u_ec s' = u_ec s /\ u_ws s' = u_ws s /\ u_sk s' = u_sk s /\ u_skon s' = u_skon s /\
    u_next s' = u_next s /\ sublist (u_wo s') (u_wo s) /\
    map_count (u_map s') + N.of_nat n = map_count (u_map s) /\
    map_weight (u_map s') + sum_w (take n (lru_triples c s)) = map_weight (u_map s) /\
    (n = 0%nat \/ wt + sum_w (take (n - 1) (lru_triples c s)) < te) /\
    (te <= wt + sum_w (take n (lru_triples c s)) \/ n = fuel \/ n = length (u_prob s))).
  { intros fuel' s te cnt wt W Hor. exists 0%nat, s, cnt, wt. cbn [Nat.sub]. rewrite !take_0, drop_0. cbn [foldr sum_w].
    split; [done|]. split; [lia|]. split; [lia|]. split; [done|]. split; [lia|]. split; [lia|].
    do 8 (split; [done|]). split; [lia|]. split; [lia|]. split; [by left|].
    destruct Hor as [->|[H|H]]; [right; by left|left; lia|right; right; by rewrite H]. }
  induction fuel as [|fuel IH]; intros s te cnt wt W Hb; cbn [evict_lru_loop].
  { apply Hstop; [done|by left]. }
  destruct (N.leb_spec te wt) as [Hle|Hlt].
  { apply Hstop; [done|right; by left]. }
  destruct (u_prob s) as [|[nid nd] rest] eqn:Ep.
  { rewrite <-Ep. apply Hstop; [done|right; by right]. }
  assert (Hin : (nid, nd) ∈ u_prob s) by (rewrite Ep; left).
  destruct (ws_ao_map _ _ _ W _ _ Hin) as (e & He & _). rewrite He.
  destruct (evict_head _ _ _ _ _ _ _ W Ep He ltac:(done))
    as (s1 & E1 & W1 & Hp1 & Hm1 & Hec1 & Hws1 & Hsk1 & Hskon1 & Hnx1 & Hwo1 & Hc1 & Hw1 & Hnotin & Htr).
  rewrite E1. cbn [rbind]. rewrite sat_add64_big by lia.
  destruct (IH s1 te (cnt + 1) (wt + ue_weight e) W1 ltac:(lia))
    as (n & s' & cnt' & wt' & E & Hcnt & Hwt & W' & Hnf & Hnl & Hp' & Hm' & Hec' & Hws' & Hsk' & Hskon' & Hnx'
        & Hwo' & Hc' & Hw' & Hmin & Hmax).
  assert (Ht : lru_triples c s = tr_of (u_map s) (u_sk s) nd :: lru_triples c s1).
  { rewrite !lru_triples_eq, Ep, triples_of_cons, Hp1, Htr. done. }
  assert (Htw : (tr_of (u_map s) (u_sk s) nd).1.2 = ue_weight e).
  { unfold tr_of. cbn [fst snd]. by rewrite He. }
  assert (Hk : lru_keys s = an_key nd :: lru_keys s1).
  { rewrite !lru_keys_eq, Ep, Hp1. done. }
  exists (S n), s', cnt', wt'. rewrite Ht, Hk. cbn [take drop length]. rewrite !sum_w_cons, Htw.
  rewrite Hp1 in Hp', Hnl.
  split; [exact E|]. split; [lia|]. split; [lia|]. split; [done|]. split; [lia|]. split; [lia|].
  split; [done|]. split.
  { rewrite Hm', Hm1. cbn [foldr]. apply foldr_delete_comm. }
  do 5 (split; [congruence|]). split; [by etrans|]. split; [lia|]. split; [lia|]. split.
  - right. replace (S n - 1)%nat with n by lia. destruct n as [|n]; [rewrite take_0; cbn [sum_w foldr]; lia|].
    destruct Hmin as [?|Hmin]; [done|]. replace (S n - 1)%nat with n in Hmin by lia.
    cbn [take]. rewrite sum_w_cons, Htw. lia.
  - destruct Hmax as [?|[->| ->]]; [left; lia|right; by left|right; right; by rewrite Hp1].
Qed.

Lemma over_eq c s : weights_to_evict c s = over c s.
Proof. reflexivity. Qed.

Lemma evict_lru_entries_exact c s s' :
  cfg_ok c -> WF' c s -> small s -> evict_lru_entries c s = Ok s' ->
  exists n, (n <= length (u_prob s))%nat /\
    u_prob s' = drop n (u_prob s) /\
    u_map s' = foldr delete (u_map s) (take n (lru_keys s)) /\
    sublist (u_wo s') (u_wo s) /\
    u_ws s' + sum_w (take n (lru_triples c s)) = u_ws s /\
    map_count (u_map s') + N.of_nat n = map_count (u_map s) /\
    (n = 0%nat \/ sum_w (take (n - 1) (lru_triples c s)) < over c s) /\
    (over c s <= sum_w (take n (lru_triples c s)) \/ n = N.to_nat U_EVICTION_BATCH_SIZE \/
     n = length (u_prob s)).
Proof.
  intros Hc [W _] [Hn _] E. unfold evict_lru_entries in E.
  pose proof (WF_small_big _ _ Hc W Hn) as Hb.
  apply WF_WFs in W as (W & Hec & Hws).
  destruct (evict_lru_loop_exact c batch_u s (weights_to_evict c s) 0 0 W Hb)
    as (n & s1 & cnt' & wt' & E1 & Hcnt & Hwt & W' & Hnf & Hnl & Hp' & Hm' & Hec' & Hws' & _ & _ & _
        & Hwo' & Hc' & Hw' & Hmin & Hmax).
  rewrite E1 in E. cbn [rbind] in E.
  destruct (chk_sub (u_ec s1) cnt') as [ec|]; cbn [rbind] in E; [|done]. injection E as <-.
  rewrite N.add_0_l in Hwt, Hmin, Hmax. rewrite over_eq in Hmin, Hmax.
  exists n. simpl_set. do 4 (split; [done|]). split; [|done].
  unfold sat_sub. rewrite Hws', Hwt. lia.
Qed.

Theorem evict_lru_prefix c s s' :
  cfg_ok c -> WF' c s -> small s -> evict_lru_entries c s = Ok s' ->
  exists n, lru_keys s' = drop n (lru_keys s) /\
            view s' = delete_keys (take n (lru_keys s)) (view s) /\
            u_ws s' + sum_w (take n (lru_triples c s)) = u_ws s /\
            (n = 0%nat \/ sum_w (take (n - 1) (lru_triples c s)) < over c s) /\
            (over c s <= sum_w (take n (lru_triples c s)) \/ n = N.to_nat U_EVICTION_BATCH_SIZE \/ n = length (lru_keys s)).
Proof.
  intros Hc W Hs E.
  destruct (evict_lru_entries_exact c s s' Hc W Hs E) as (n & _ & Hp & Hm & _ & Hws & _ & Hmin & Hmax).
  exists n. split; [|split; [|split; [done|split; [done|]]]].
  - by rewrite !lru_keys_eq, Hp, keys_of_drop.
  - unfold view. rewrite Hm. apply foldr_delete_fmap.
  - by rewrite lru_keys_eq, keys_of_length.
Qed.

(** * What the maintenance leaves behind *)
Lemma maintain_post c s now s1 ts :
  cfg_ok c -> WF' c s -> small s -> maintain c s now = Ok (s1, ts) ->
  WF' c s1 /\ u_next s1 < 2 ^ 32 /\ ts = (if has_expiry c then Some now else None) /\ shrinks s s1.
Proof.
  intros Hc W [Hn Hl] E.
  destruct (maintain_ok c s now Hc (WF'_WF _ _ W) Hn) as (s1' & E1 & W1 & Sh).
  rewrite E in E1. injection E1 as <- ->.
  split; [by eapply shrinks_WF'|]. split; [by rewrite (shrinks_next _ _ Sh)|]. done.
Qed.

Lemma view_mes c s : view (maybe_enable_sketch c s) = view s.
Proof.
  unfold maybe_enable_sketch, enable_sketch. destruct (should_enable_sketch c s); [|done].
  by destruct (uc_cap c).
Qed.

Lemma prob_mes c s : u_prob (maybe_enable_sketch c s) = u_prob s.
Proof.
  unfold maybe_enable_sketch, enable_sketch. destruct (should_enable_sketch c s); [|done].
  by destruct (uc_cap c).
Qed.

Lemma lru_mes c s : lru_keys (maybe_enable_sketch c s) = lru_keys s.
Proof. unfold lru_keys. by rewrite prob_mes. Qed.

Lemma ws_mes c s : u_ws (maybe_enable_sketch c s) = u_ws s.
Proof.
  unfold maybe_enable_sketch, enable_sketch. destruct (should_enable_sketch c s); [|done].
  by destruct (uc_cap c).
Qed.

(** the tail shared by the two admitting paths of [handle_insert] *)
Lemma push_finish c sv k h w ts (F : N -> N) pend s' :
  u_map sv !! k = Some pend ->
  (s1 <-r push_candidate c sv k h w ts; ec <-r chk_add64 (u_ec s1) 1;
   Ok (maybe_enable_sketch c (set_ws (set_ec s1 ec) (F (u_ws s1))))) = Ok s' ->
  view s' = <[k := ue_val pend]> (view sv) /\ lru_keys s' = lru_keys sv ++ [k] /\ u_ws s' = F (u_ws sv).
Proof.
  intros Hk H. rewrite (push_candidate_eq _ _ _ _ _ _ _ Hk) in H. cbn [rbind] in H.
  destruct (chk_add64 _ 1) as [ec|]; cbn [rbind] in H; [|done]. injection H as <-.
  rewrite view_mes, lru_mes, ws_mes. unfold view, lru_keys. simpl_set. split; [|split; [|done]].
  - by rewrite fmap_insert.
  - by rewrite !fmap_app.
Qed.

(** * TinyLFU admission: the scan of [admit_loop] computes [tinylfu_victims] *)
Lemma shortest_prefix_0 l : shortest_prefix l 0 = Some [].
Proof. by destruct l. Qed.

Lemma shortest_prefix_spec l : forall need p,
  shortest_prefix l need = Some p -> p = take (length p) l /\ need <= sum_w p.
Proof.
  induction l as [|t l IH]; intros need p; cbn [shortest_prefix];
    destruct (N.eqb_spec need 0) as [->|Hne].
  - intros [= <-]. split; [done|]. cbn. lia.
  - done.
  - intros [= <-]. split; [done|]. cbn. lia.
  - destruct (shortest_prefix l (need - t.1.2)) as [q|] eqn:E; [|done]. intros [= <-].
    destruct (IH _ _ E) as [Hq Hw]. cbn [length take]. rewrite <-Hq. split; [done|].
    rewrite sum_w_cons. lia.
Qed.

Lemma admit_loop_spec c s : forall l cw cf vw vf acc res,
  (forall n nd, (n, nd) ∈ l ->
     exists e, u_map s !! an_key nd = Some e /\ ue_weight e = weigh c (an_key nd) (ue_val e)) ->
  admit_loop c s l cw cf vw vf acc = Ok res ->
  match shortest_prefix (triples_of (u_map s) (u_sk s) l) (cw - vw) with
  | Some p => if vf + sum_f p <? cf
              then res = (acc ++ (take (length p) l).*1, vw + sum_w p, vf + sum_f p)
              else (cw <=? res.1.2) && (res.2 <? cf) = false
  | None => (cw <=? res.1.2) && (res.2 <? cf) = false
  end.
Proof.
  assert (Hstop : forall (l : list (N * aonode)) T cw cf vw vf (acc : list N),
    (cw <= vw \/ cf < vf \/ T = []) ->
    match shortest_prefix T (cw - vw) with
    | Some p => if vf + sum_f p <? cf
                then (acc, vw, vf) = (acc ++ (take (length p) l).*1, vw + sum_w p, vf + sum_f p)
                else (cw <=? (acc, vw, vf).1.2) && ((acc, vw, vf).2 <? cf) = false
    | None => (cw <=? (acc, vw, vf).1.2) && ((acc, vw, vf).2 <? cf) = false
    end).
  { intros l T cw cf vw vf acc Hor. cbn [fst snd].
    destruct (N.leb_spec cw vw) as [Hle|Hlt].
    - replace (cw - vw) with 0 by lia. rewrite shortest_prefix_0. cbn [sum_f sum_w foldr length].
      rewrite take_0, !N.add_0_r. destruct (vf <? cf); [by rewrite app_nil_r|done].
    - destruct Hor as [?|[Hcf| ->]]; [lia| |].
      + destruct (shortest_prefix T (cw - vw)) as [p|]; [|done].
        destruct (N.ltb_spec (vf + sum_f p) cf); [lia|done].
      + cbn [shortest_prefix]. destruct (N.eqb_spec (cw - vw) 0); [lia|done]. }
  induction l as [|[nid nd] l IH]; intros cw cf vw vf acc res Hl; cbn [admit_loop].
  - intros H. assert (res = (acc, vw, vf)) as ->.
    { destruct (cw <=? vw); [|destruct (cf <? vf)]; congruence. }
    apply Hstop. right. by right.
  - destruct (N.leb_spec cw vw) as [Hle|Hlt]. { intros [= <-]. apply Hstop. by left. }
    destruct (N.ltb_spec cf vf) as [Hlt2|Hle2]. { intros [= <-]. apply Hstop. right. by left. }
    destruct (Hl nid nd ltac:(left)) as (e & He & Hwe). rewrite He.
    unfold chk_add64 at 1. destruct (_ <? two64); cbn [rbind]; [|done].
    unfold chk_add32 at 1. destruct (_ <? two32); cbn [rbind]; [|done].
    intros H. apply IH in H; [|intros n' nd' Hin; apply (Hl n' nd'); by right].
    rewrite triples_of_cons. cbn [shortest_prefix].
    destruct (N.eqb_spec (cw - vw) 0) as [?|_]; [lia|].
    assert (Htw : (tr_of (u_map s) (u_sk s) nd).1.2 = ue_weight e).
    { unfold tr_of. cbn [fst snd]. by rewrite He. }
    assert (Htf : (tr_of (u_map s) (u_sk s) nd).2 = frequency (u_sk s) (an_hash nd)) by done.
    rewrite Htw. rewrite <-Hwe, N.sub_add_distr in H.
    destruct (shortest_prefix _ (cw - vw - ue_weight e)) as [p|]; [|done].
    rewrite sum_f_cons, sum_w_cons, Htw, Htf, !N.add_assoc. cbn [length take].
    destruct (_ <? cf); [|done].
    rewrite H, fmap_cons, <-app_assoc. done.
Qed.

Lemma remove_victims_exact c k : forall pre s rest s',
  WFs c (Some k) s -> u_prob s = pre ++ rest -> is_Some (u_map s !! k) ->
  remove_victims s pre.*1 = Ok s' ->
  WFs c (Some k) s' /\ u_prob s' = rest /\ u_map s' = foldr delete (u_map s) (keys_of pre) /\
  u_ws s' = u_ws s /\ u_sk s' = u_sk s /\ u_skon s' = u_skon s /\ u_next s' = u_next s /\
  u_map s' !! k = u_map s !! k /\
  map_weight (u_map s') + sum_w (triples_of (u_map s) (u_sk s) pre) = map_weight (u_map s).
Proof.
  induction pre as [|[nid nd] pre IH]; intros s rest s' W Hp Hk.
  - cbn [fmap list_fmap remove_victims]. intros [= <-]. cbn. do 8 (split; [done|]). lia.
  - rewrite fmap_cons. cbn [fst remove_victims].
    assert (Hin : (nid, nd) ∈ u_prob s) by (rewrite Hp; left).
    rewrite (elem_find_id _ _ _ (ws_nodup_ao _ _ _ W) Hin).
    destruct (ws_ao_map _ _ _ W _ _ Hin) as (e & He & Hao). rewrite He.
    assert (Hnk : an_key nd <> k).
    { intros Heq. rewrite Heq in He. destruct (ws_pend _ _ _ W _ _ eq_refl He). congruence. }
    destruct (evict_head _ _ _ _ _ _ _ W Hp He ltac:(congruence))
      as (s1 & E1 & W1 & Hp1 & Hm1 & Hec1 & Hws1 & Hsk1 & Hskon1 & Hnx1 & Hwo1 & Hc1 & Hw1 & Hnotin & Htr).
    rewrite E1. cbn [rbind].
    destruct (chk_sub (u_ec s1) 1) as [ec|]; cbn [rbind]; [|done]. intros H.
    apply (IH (set_ec s1 ec) rest) in H; [|by apply WFs_set_ec|done|].
    2:{ simpl_set. rewrite Hm1, lookup_delete_ne; done. }
    simpl_set. destruct H as (W' & Hp' & Hm' & Hws' & Hsk' & Hskon' & Hnx' & Hk' & Hwt').
    split; [done|]. split; [done|]. split.
    { rewrite Hm', Hm1, keys_of_cons. cbn [foldr]. apply foldr_delete_comm. }
    do 4 (split; [congruence|]). split.
    { rewrite Hk', Hm1. by apply lookup_delete_ne. }
    rewrite triples_of_cons, sum_w_cons.
    assert ((tr_of (u_map s) (u_sk s) nd).1.2 = ue_weight e) as ->.
    { unfold tr_of. cbn [fst snd]. by rewrite He. }
    assert (triples_of (u_map s1) (u_sk s1) pre = triples_of (u_map s) (u_sk s) pre) as Heq.
    { rewrite Hsk1, Hm1. apply triples_of_ext. intros k' Hk''. apply lookup_delete_ne.
      intros <-. apply Hnotin. rewrite keys_of_app. apply elem_of_app. by left. }
    rewrite Heq in Hwt'. lia.
Qed.

(** * insert of a new key: the three outcomes *)
Definition rejected (s1 s' : ustate) : Prop :=
  view s' = view s1 /\ u_prob s' = u_prob s1 /\ u_wo s' = u_wo s1 /\ u_ws s' = u_ws s1.

Lemma handle_insert_exact c s1 k v ts s' :
  cfg_ok c -> WF' c s1 -> u_next s1 < 2 ^ 32 -> u_map s1 !! k = None ->
  handle_insert c (UModel.set_map s1 (<[k := mkUE v (weigh c k v) None None]> (u_map s1)))
                k (uc_hash c k) (weigh c k v) ts = Ok s' ->
  (has_enough_capacity c (weigh c k v) (u_ws s1) = Ok true /\
     view s' = <[k := v]> (view s1) /\ lru_keys s' = lru_keys s1 ++ [k] /\
     u_ws s' = u_ws s1 + weigh c k v) \/
  (has_enough_capacity c (weigh c k v) (u_ws s1) = Ok false /\
    ((exists cap, uc_cap c = Some cap /\ cap < weigh c k v) /\ rejected s1 s' \/
     (exists cap, uc_cap c = Some cap /\ weigh c k v <= cap) /\
       match tinylfu_victims (lru_triples c s1) (weigh c k v) (frequency (u_sk s1) (uc_hash c k)) with
       | Some p => view s' = <[k := v]> (delete_keys (p.*1.*1) (view s1)) /\
                   lru_keys s' = drop (length p) (lru_keys s1) ++ [k] /\
                   p.*1.*1 = take (length p) (lru_keys s1) /\
                   u_ws s' + sum_w p = u_ws s1 + weigh c k v /\ weigh c k v <= sum_w p
       | None => rejected s1 s'
       end)).
Proof.
  intros Hc [W Hoff] Hn Hk. set (w := weigh c k v). set (pend := mkUE v w None None).
  set (s2 := UModel.set_map s1 (<[k := pend]> (u_map s1))). intros H.
  apply WF_WFs in W as (W & Hec & Hws).
  assert (W2 : WFs c (Some k) s2) by (by apply wfs_add_pending).
  assert (Hk2 : u_map s2 !! k = Some pend) by apply lookup_insert.
  assert (Hbig : map_weight (u_map s1) + w <= BIG).
  { pose proof (wfs_weight_big _ _ _ Hc W2 Hn) as Hb. subst s2. simpl_set.
    rewrite map_weight_insert in Hb by done. exact Hb. }
  assert (Hview2 : view s2 = <[k := v]> (view s1)).
  { unfold view. subst s2. simpl_set. by rewrite fmap_insert. }
  assert (Hrej : rejected s1 (UModel.set_map s2 (delete k (u_map s2)))).
  { unfold rejected, view. subst s2. simpl_set. by rewrite delete_insert. }
  unfold handle_insert in H. change (u_ws s2) with (u_ws s1) in H.
  destruct (has_enough_capacity c w (u_ws s1)) as [[|]|] eqn:Ecap; cbn [rbind] in H; [| |done].
  - left. split; [done|].
    apply (push_finish c s2 k (uc_hash c k) w ts (fun x => sat_add64 x w) pend s' Hk2) in H.
    destruct H as (A & B & C). rewrite Hview2, insert_insert in A. split; [done|]. split; [done|].
    rewrite C. change (u_ws s2) with (u_ws s1). rewrite sat_add64_big by lia. done.
  - right. split; [done|]. unfold has_enough_capacity in Ecap.
    destruct (uc_cap c) as [cap|] eqn:Ec; [|done].
    destruct (N.ltb_spec cap w) as [Hlt|Hle].
    { left. injection H as <-. split; [eauto|done]. }
    right. split; [eauto|].
    set (cf := frequency (u_sk s1) (uc_hash c k)) in *.
    change (u_sk s2) with (u_sk s1) in H. fold cf in H.
    destruct (admit_loop c s2 (u_prob s2) w cf 0 0 []) as [[[victims vw] vf]|] eqn:Ea;
      cbn [rbind] in H; [|done].
    apply admit_loop_spec in Ea.
    2:{ intros n nd Hin. destruct (ws_ao_map _ _ _ W2 _ _ Hin) as (e & He & _).
        exists e. split; [done|]. by eapply ws_weight. }
    assert (Htr : triples_of (u_map s2) (u_sk s2) (u_prob s2) = lru_triples c s1).
    { rewrite lru_triples_eq. subst s2. simpl_set. apply triples_of_ext.
      intros k' Hk'. apply lookup_insert_ne. intros <-.
      by apply (wfs_notin_keys _ _ _ _ W Hk). }
    rewrite Htr, N.sub_0_r in Ea. unfold tinylfu_victims.
    destruct (shortest_prefix (lru_triples c s1) w) as [p|] eqn:Esp.
    2:{ cbn [fst snd] in Ea. rewrite Ea in H. by injection H as <-. }
    rewrite !N.add_0_l in Ea. destruct (N.ltb_spec (sum_f p) cf) as [Hf|Hf].
    2:{ cbn [fst snd] in Ea. rewrite Ea in H. by injection H as <-. }
    injection Ea as -> -> ->.
    destruct (shortest_prefix_spec _ _ _ Esp) as [Hpt Hpw].
    assert (Hadm : (w <=? sum_w p) && (sum_f p <? cf) = true).
    { apply andb_true_iff. split; [by apply N.leb_le|by apply N.ltb_lt]. }
    rewrite Hadm in H. cbn [app] in H. set (n := length p) in *.
    destruct (remove_victims s2 (take n (u_prob s1)).*1) as [sv|] eqn:Erv; cbn [rbind] in H; [|done].
    apply (remove_victims_exact c k (take n (u_prob s1)) s2 (drop n (u_prob s1))) in Erv;
      [|done|by rewrite take_drop|by eexists].
    destruct Erv as (Wv & Hpv & Hmv & Hwsv & Hskv & Hskonv & Hnxv & Hkv & Hwtv).
    rewrite Hk2 in Hkv.
    apply (push_finish c sv k (uc_hash c k) w ts (fun x => sat_add64 (sat_sub x (sum_w p)) w) pend s' Hkv) in H.
    destruct H as (A & B & C).
    assert (Hks : p.*1.*1 = take n (lru_keys s1)).
    { rewrite Hpt at 1. fold n. rewrite !fmap_take, lru_triples_eq, triples_keys. done. }
    assert (Hkeys : keys_of (take n (u_prob s1)) = p.*1.*1).
    { rewrite Hks, keys_of_take. done. }
    rewrite Hkeys in Hmv.
    assert (Hknot : k ∉ p.*1.*1).
    { rewrite Hks. intros Hin. apply elem_of_take in Hin as (i & Hin & _).
      apply elem_of_list_lookup_2 in Hin. by apply (wfs_notin_keys _ _ _ _ W Hk). }
    split; [|split; [|split; [done|split; [|done]]]].
    + rewrite A. unfold view at 1. rewrite Hmv, foldr_delete_fmap. fold (view s2).
      rewrite Hview2, foldr_delete_insert by done. by rewrite insert_insert.
    + rewrite B. rewrite !lru_keys_eq, Hpv. subst s2. simpl_set. by rewrite keys_of_drop.
    + rewrite C, Hwsv. change (u_ws s2) with (u_ws s1).
      rewrite triples_of_take in Hwtv. change (u_prob s1) with (u_prob s2) in Hwtv. rewrite Htr in Hwtv. fold n in Hpt. rewrite <-Hpt in Hwtv.
      pose proof (lookup_weight_le _ _ _ Hkv) as Hle'. cbn [ue_weight pend] in Hle'.
      assert (Hm2 : map_weight (u_map s2) = map_weight (u_map s1) + w).
      { subst s2. simpl_set. by rewrite map_weight_insert. }
      unfold sat_sub. rewrite sat_add64_big by lia. lia.
Qed.

(** * insert of an existing key *)
Lemma set_last_accessed_keys s e t s' :
  set_last_accessed s e t = Ok s' -> lru_keys s' = lru_keys s.
Proof.
  unfold set_last_accessed. destruct (ue_ao e) as [n|]; [|by intros [= <-]].
  destruct (mem_id n (u_prob s)); [|done]. intros [= <-]. rewrite !lru_keys_eq. simpl_set.
  by apply keys_update_id.
Qed.

Lemma move_to_back_ao_keys c pk s k e s' :
  WFs c pk s -> u_map s !! k = Some e -> Some k <> pk -> move_to_back_ao s e = Ok s' ->
  lru_keys s' = List.filter (nkey k) (lru_keys s) ++ [k].
Proof.
  intros W H Hpk. destruct (ws_map_ao _ _ _ W _ _ H Hpk) as (n & nd & Hao & Hin & Hkey & _).
  unfold move_to_back_ao, deq_move_to_back. rewrite Hao.
  pose proof (elem_find_id _ _ _ (ws_nodup_ao _ _ _ W) Hin) as Hf. rewrite Hf. cbn [rbind].
  intros [= <-]. rewrite !lru_keys_eq. simpl_set. rewrite keys_of_app.
  rewrite (keys_remove_id _ _ _ (wfs_keys_nodup _ _ _ W) Hf).
  change (keys_of [(n, nd)]) with [an_key nd]. by rewrite Hkey.
Qed.

Lemma handle_update_exact c s1 k v ts old s' :
  cfg_ok c -> WF' c s1 -> u_next s1 < 2 ^ 32 -> u_map s1 !! k = Some old ->
  (is_Some ts <-> has_expiry c = true) ->
  handle_update c (UModel.set_map s1 (<[k := mkUE v (weigh c k v) None None]> (u_map s1)))
                k ts (weigh c k v) old = Ok s' ->
  view s' = <[k := v]> (view s1) /\
  lru_keys s' = List.filter (nkey k) (lru_keys s1) ++ [k] /\
  u_ws s' + ue_weight old = u_ws s1 + weigh c k v.
Proof.
  intros Hc [W _] Hn Hk Hts H. apply WF_WFs in W as (W & Hec & Hws).
  unfold handle_update in H. simpl_set. rewrite lookup_insert in H. cbn [ue_val] in H.
  rewrite insert_insert in H.
  set (w := weigh c k v) in *. set (e := mkUE v w (ue_ao old) (ue_wo old)) in *.
  set (m1 := <[k:=e]> (u_map s1)) in *.
  set (s1' := UModel.set_map (UModel.set_map s1 _) m1) in *.
  assert (W1 : WFs c None s1') by exact (wfs_replace c s1 k old v w W Hk eq_refl).
  assert (Hk1 : u_map s1' !! k = Some e) by apply lookup_insert.
  assert (H2 : exists s2,
    match ts with
    | Some t => s' <-r set_last_accessed s1' e t; set_last_modified s' e t
    | None => Ok s1'
    end = Ok s2 /\ WFs c None s2 /\ same_core s1' s2 /\ lru_keys s2 = lru_keys s1').
  { destruct ts as [t|]; [|exists s1'; split; [done|]; split; [done|]; split; [apply same_core_refl|done]].
    assert (Hex : has_expiry c = true) by (apply Hts; by eexists).
    destruct (set_last_accessed_ok c None s1' k e t W1 Hk1 ltac:(done) Hex) as (p & E & Wp).
    rewrite E. cbn [rbind]. apply set_last_accessed_keys in E.
    destruct (set_last_modified_ok c None (set_prob s1' p) k e t Wp Hk1 ltac:(done)) as (w' & E' & Ww).
    rewrite E'. eexists. split; [reflexivity|]. split; [done|]. split; [|exact E].
    eapply same_core_trans; [apply same_core_set_prob|apply same_core_set_wo]. }
  destruct H2 as (s2 & E2 & W2 & C2 & K2). rewrite E2 in H. cbn [rbind] in H.
  assert (Hk2 : u_map s2 !! k = Some e) by (destruct C2 as (-> & _); done).
  destruct (move_to_back_ao_ok c None s2 k e W2 Hk2 ltac:(done)) as (p & E3 & W3 & _).
  pose proof (move_to_back_ao_keys c None s2 k e _ W2 Hk2 ltac:(done) E3) as K3.
  rewrite E3 in H. cbn [rbind] in H.
  assert (H4 : exists s4,
    match uc_ttl c with Some _ => move_to_back_wo (set_prob s2 p) e | None => Ok (set_prob s2 p) end = Ok s4 /\
    same_core s2 s4 /\ lru_keys s4 = lru_keys (set_prob s2 p)).
  { destruct (uc_ttl c) as [ttl|] eqn:Ettl.
    - destruct (move_to_back_wo_ok c None (set_prob s2 p) k e W3 Hk2 ltac:(done)) as (w' & E4 & W4 & _).
      { by rewrite Ettl. }
      rewrite E4. eexists. split; [reflexivity|]. split; [|done].
      eapply same_core_trans; [apply same_core_set_prob|apply same_core_set_wo].
    - eexists. split; [reflexivity|]. split; [|done]. apply same_core_set_prob. }
  destruct H4 as (s4 & E4 & C4 & K4). rewrite E4 in H. cbn [rbind] in H. injection H as <-.
  destruct (same_core_trans _ _ _ C2 C4) as (Dm & Dec & Dws & Dsk & Dskon & Dn).
  unfold view. rewrite lru_keys_eq. simpl_set. rewrite <-lru_keys_eq.
  split; [|split].
  - rewrite Dm. subst s1' m1. simpl_set. by rewrite fmap_insert.
  - rewrite K4, K3, K2. done.
  - pose proof (wfs_weight_big _ _ _ Hc W1 Hn) as Hbig. change (u_map s1') with m1 in Hbig.
    rewrite Dws. change (u_ws s1') with (u_ws s1).
    pose proof (map_weight_insert_Some _ _ _ e Hk) as Hmw. change (ue_weight e) with w in Hmw.
    pose proof (lookup_weight_le _ _ _ Hk) as Hle.
    subst m1. unfold sat_sub. rewrite sat_add64_big by lia. lia.
Qed.

(** * The insert theorems *)
Lemma u_insert_unfold c s now k v s1 ts :
  maintain c s now = Ok (s1, ts) ->
  u_insert c s now k v =
  match u_map s1 !! k with
  | Some old_e => handle_update c (UModel.set_map s1 (<[k := mkUE v (weigh c k v) None None]> (u_map s1)))
                                k ts (weigh c k v) old_e
  | None => handle_insert c (UModel.set_map s1 (<[k := mkUE v (weigh c k v) None None]> (u_map s1)))
                          k (uc_hash c k) (weigh c k v) ts
  end.
Proof. intros E. unfold u_insert. rewrite E. reflexivity. Qed.

Theorem u_insert_fits c s now k v s1 ts s' :
  cfg_ok c -> WF' c s -> small s ->
  maintain c s now = Ok (s1, ts) -> u_map s1 !! k = None ->
  has_enough_capacity c (weigh c k v) (u_ws s1) = Ok true ->
  u_insert c s now k v = Ok s' ->
  view s' = <[k := v]> (view s1) /\ lru_keys s' = lru_keys s1 ++ [k] /\
  u_ws s' = u_ws s1 + weigh c k v.
Proof.
  intros Hc W Hs Em Hk Hfree H.
  destruct (maintain_post _ _ _ _ _ Hc W Hs Em) as (W1 & Hn1 & _ & _).
  rewrite (u_insert_unfold _ _ _ _ _ _ _ Em), Hk in H.
  apply handle_insert_exact in H; [|done..].
  destruct H as [(_ & ?)|(Hf & _)]; [done|congruence].
Qed.

Theorem u_insert_oversized c s now k v s1 ts s' cap :
  cfg_ok c -> WF' c s -> small s ->
  maintain c s now = Ok (s1, ts) -> u_map s1 !! k = None ->
  uc_cap c = Some cap -> cap < weigh c k v ->
  u_insert c s now k v = Ok s' ->
  view s' = view s1 /\ u_prob s' = u_prob s1 /\ u_ws s' = u_ws s1.
Proof.
  intros Hc W Hs Em Hk Hcap Hlt H.
  destruct (maintain_post _ _ _ _ _ Hc W Hs Em) as (W1 & Hn1 & _ & _).
  rewrite (u_insert_unfold _ _ _ _ _ _ _ Em), Hk in H.
  apply handle_insert_exact in H; [|done..].
  destruct H as [(Hf & _)|(_ & [(_ & (? & ? & _ & ?))|((cap' & Hcap' & Hle) & _)])].
  - unfold has_enough_capacity, chk_add64 in Hf. rewrite Hcap in Hf.
    destruct (_ <? two64); cbn [rbind] in Hf; [|done]. injection Hf as Hf. apply N.leb_le in Hf. lia.
  - done.
  - rewrite Hcap in Hcap'. injection Hcap' as <-. lia.
Qed.

Theorem u_insert_admission c s now k v s1 ts s' :
  cfg_ok c -> WF' c s -> small s ->
  maintain c s now = Ok (s1, ts) -> u_map s1 !! k = None ->
  has_enough_capacity c (weigh c k v) (u_ws s1) = Ok false ->
  (forall cap, uc_cap c = Some cap -> weigh c k v <= cap) ->
  u_insert c s now k v = Ok s' ->
  match tinylfu_victims (lru_triples c s1) (weigh c k v) (frequency (u_sk s1) (uc_hash c k)) with
  | Some p =>
      view s' = <[k := v]> (delete_keys (p.*1.*1) (view s1)) /\
      lru_keys s' = drop (length p) (lru_keys s1) ++ [k] /\
      p.*1.*1 = take (length p) (lru_keys s1)
  | None =>
      view s' = view s1 /\ u_prob s' = u_prob s1 /\ u_wo s' = u_wo s1 /\ u_ws s' = u_ws s1
  end.
Proof.
  intros Hc W Hs Em Hk Hfree Hfit H.
  destruct (maintain_post _ _ _ _ _ Hc W Hs Em) as (W1 & Hn1 & _ & _).
  rewrite (u_insert_unfold _ _ _ _ _ _ _ Em), Hk in H.
  apply handle_insert_exact in H; [|done..].
  destruct H as [(Hf & _)|(_ & [((cap & Hcap & Hlt) & _)|(_ & H)])].
  - congruence.
  - specialize (Hfit _ Hcap). lia.
  - destruct (tinylfu_victims _ _ _) as [p|]; [|exact H].
    destruct H as (? & ? & ? & _). done.
Qed.

(** the weighted size after an admission: the victims' weight is replaced by the newcomer's *)
Theorem u_insert_admission_ws c s now k v s1 ts s' p :
  cfg_ok c -> WF' c s -> small s ->
  maintain c s now = Ok (s1, ts) -> u_map s1 !! k = None ->
  has_enough_capacity c (weigh c k v) (u_ws s1) = Ok false ->
  (forall cap, uc_cap c = Some cap -> weigh c k v <= cap) ->
  u_insert c s now k v = Ok s' ->
  tinylfu_victims (lru_triples c s1) (weigh c k v) (frequency (u_sk s1) (uc_hash c k)) = Some p ->
  u_ws s' + sum_w p = u_ws s1 + weigh c k v /\ weigh c k v <= sum_w p.
Proof.
  intros Hc W Hs Em Hk Hfree Hfit H Hp.
  destruct (maintain_post _ _ _ _ _ Hc W Hs Em) as (W1 & Hn1 & _ & _).
  rewrite (u_insert_unfold _ _ _ _ _ _ _ Em), Hk in H.
  apply handle_insert_exact in H; [|done..].
  destruct H as [(Hf & _)|(_ & [((cap & Hcap & Hlt) & _)|(_ & H)])].
  - congruence.
  - specialize (Hfit _ Hcap). lia.
  - rewrite Hp in H. destruct H as (_ & _ & _ & ? & ?). done.
Qed.

Theorem u_insert_update c s now k v s1 ts s' e :
  cfg_ok c -> WF' c s -> small s ->
  maintain c s now = Ok (s1, ts) -> u_map s1 !! k = Some e ->
  u_insert c s now k v = Ok s' ->
  view s' = <[k := v]> (view s1) /\
  lru_keys s' = List.filter (fun x => negb (x =? k)) (lru_keys s1) ++ [k] /\
  u_ws s' + ue_weight e = u_ws s1 + weigh c k v.
Proof.
  intros Hc W Hs Em Hk H.
  destruct (maintain_post _ _ _ _ _ Hc W Hs Em) as (W1 & Hn1 & -> & _).
  rewrite (u_insert_unfold _ _ _ _ _ _ _ Em), Hk in H.
  eapply handle_update_exact; [done..|apply ts_ok|exact H].
Qed.

(** * Maintenance *)
Lemma rbind_Ok {A B} (m : res A) (f : A -> res B) b :
  rbind m f = Ok b -> exists a, m = Ok a /\ f a = Ok b.
Proof. destruct m as [a|]; cbn [rbind]; [eauto|done]. Qed.

Lemma shrinks_small s s' : shrinks s s' -> small s -> small s'.
Proof. intros Sh [? ?]. split; [by rewrite (shrinks_next _ _ Sh)|by rewrite (shrinks_load _ _ Sh)]. Qed.

Lemma maintain_split c s now s1 ts :
  cfg_ok c -> WF' c s -> small s -> maintain c s now = Ok (s1, ts) ->
  exists s0, (if has_expiry c then evict_expired c s now = Ok s0 else s0 = s) /\
    WF' c s0 /\ small s0 /\ shrinks s s0 /\ evict_lru_entries c s0 = Ok s1.
Proof.
  intros Hc W Hs E. unfold maintain, evict_expired_if_needed in E. destruct (has_expiry c).
  - destruct (evict_expired_ok c s now Hc (WF'_WF _ _ W) (proj1 Hs)) as (s0 & E0 & W0 & Sh0).
    rewrite E0 in E. cbn [rbind] in E. apply rbind_Ok in E as (s2 & E2 & [= <- _]).
    exists s0. split; [done|]. split; [by eapply shrinks_WF'|]. split; [by eapply shrinks_small|done].
  - cbn [rbind] in E. apply rbind_Ok in E as (s2 & E2 & [= <- _]).
    exists s. split; [done|]. split; [done|]. split; [done|]. split; [apply shrinks_refl|done].
Qed.

Lemma shrinks_ws c s s' : WF' c s -> WF' c s' -> shrinks s s' -> u_ws s' <= u_ws s.
Proof.
  intros [W _] [W' _] (Hm & _). rewrite (wf_ws _ _ W), (wf_ws _ _ W'). by apply map_weight_subseteq.
Qed.

Theorem maintain_capacity c s now s1 ts cap :
  cfg_ok c -> WF' c s -> small s -> maintain c s now = Ok (s1, ts) -> uc_cap c = Some cap ->
  u_ws s1 <= cap \/ (size (u_map s1) + N.to_nat U_EVICTION_BATCH_SIZE <= size (u_map s))%nat.
Proof.
  intros Hc W Hs E Hcap.
  destruct (maintain_post _ _ _ _ _ Hc W Hs E) as ([W1 _] & _).
  destruct (maintain_split _ _ _ _ _ Hc W Hs E) as (s0 & _ & W0 & Hs0 & Sh0 & E1).
  destruct (evict_lru_entries_exact c s0 s1 Hc W0 Hs0 E1) as (n & Hnl & Hp & Hm & _ & Hws & Hcnt & _ & Hmax).
  unfold over in Hmax. rewrite Hcap in Hmax. destruct Hmax as [Hle|[Hb|Hall]].
  - left. lia.
  - right. destruct Sh0 as (Hsub & _). apply map_size_subseteq in Hsub.
    unfold map_count in Hcnt. lia.
  - left. rewrite Hall, drop_all in Hp.
    assert (Hempty : u_map s1 = ∅).
    { apply map_empty. intros i. destruct (u_map s1 !! i) as [e|] eqn:Ei; [|done].
      destruct (wf_map_ao _ _ W1 _ _ Ei) as (n' & nd & _ & Hin & _). rewrite Hp in Hin.
      by apply elem_of_nil in Hin. }
    rewrite (wf_ws _ _ W1), Hempty, map_weight_empty. lia.
Qed.

(** * get *)
Lemma move_to_back_ao_frame s e s' : move_to_back_ao s e = Ok s' -> exists p, s' = set_prob s p.
Proof.
  unfold move_to_back_ao. destruct (ue_ao e) as [n|].
  - destruct (deq_move_to_back n (u_prob s)) as [p|]; cbn [rbind]; [|done]. intros [= <-]. eauto.
  - intros [= <-]. exists (u_prob s). by destruct s.
Qed.

Lemma u_get_exact c s now k s1 ts s' res :
  cfg_ok c -> WF' c s -> small s -> maintain c s now = Ok (s1, ts) -> u_get c s now k = Ok (s', res) ->
  u_map s' = u_map s1 /\ u_ws s' = u_ws s1 /\ u_wo s' = u_wo s1 /\
  match res with
  | Some _ => lru_keys s' = List.filter (nkey k) (lru_keys s1) ++ [k]
  | None => lru_keys s' = lru_keys s1
  end.
Proof.
  intros Hc W Hs Em H.
  destruct (maintain_post _ _ _ _ _ Hc W Hs Em) as ([W1 _] & Hn1 & Hts & Sh).
  unfold u_get in H. rewrite Em in H. cbn [rbind] in H.
  destruct (increment_ok_load (u_sk s1) (uc_hash c k)) as (sk1 & Ei & Wsk & _).
  { apply W1. }
  { fold (sk_load s1). rewrite (shrinks_load _ _ Sh), pow2_28. destruct Hs as [_ Hl].
    rewrite pow2_27 in Hl. lia. }
  rewrite Ei in H. cbn [rbind] in H.
  set (s2 := set_sk s1 sk1 (u_skon s1)) in *.
  assert (W2 : WFs c None s2).
  { pose proof (WF_set_sk c s1 sk1 (u_skon s1) W1 Wsk) as W2. by apply WF_WFs in W2 as (? & _). }
  change (u_map s1) with (u_map s2). change (u_ws s1) with (u_ws s2). change (u_wo s1) with (u_wo s2).
  change (lru_keys s1) with (lru_keys s2).
  destruct (u_map s2 !! k) as [e|] eqn:Hk.
  2:{ injection H as <- <-. done. }
  assert (Htail : forall s3 v, WFs c None s3 -> same_core s2 s3 -> u_wo s3 = u_wo s2 ->
            lru_keys s3 = lru_keys s2 ->
            (s4 <-r move_to_back_ao s3 e; Ok (s4, Some v)) = Ok (s', res) ->
            u_map s' = u_map s2 /\ u_ws s' = u_ws s2 /\ u_wo s' = u_wo s2 /\
            match res with
            | Some _ => lru_keys s' = List.filter (nkey k) (lru_keys s2) ++ [k]
            | None => lru_keys s' = lru_keys s2
            end).
  { intros s3 v0 W3 (Dm & _ & Dws & _) Dwo Dk H3.
    apply rbind_Ok in H3 as (s4 & E4 & [= <- <-]).
    assert (Hk3 : u_map s3 !! k = Some e) by (by rewrite Dm).
    pose proof (move_to_back_ao_keys c None s3 k e s4 W3 Hk3 ltac:(done) E4) as K4.
    apply move_to_back_ao_frame in E4 as (p & ->). simpl_set.
    rewrite K4, Dk. done. }
  destruct ts as [t|].
  - apply rbind_Ok in H as ([|] & _ & H).
    { injection H as <- <-. done. }
    assert (Hex : has_expiry c = true) by (destruct (has_expiry c); congruence).
    destruct (set_last_accessed_ok c None s2 k e t W2 Hk ltac:(done) Hex) as (p & E3 & W3).
    rewrite E3 in H. cbn [rbind] in H. apply set_last_accessed_keys in E3.
    eapply Htail; [exact W3|apply same_core_set_prob|done|exact E3|exact H].
  - eapply Htail; [exact W2|apply same_core_refl|done|done|exact H].
Qed.

Theorem u_get_recency c s now k s1 ts s' res :
  cfg_ok c -> WF' c s -> small s -> maintain c s now = Ok (s1, ts) -> u_get c s now k = Ok (s', res) ->
  view s' = view s1 /\
  match res with
  | Some _ => lru_keys s' = List.filter (fun x => negb (x =? k)) (lru_keys s1) ++ [k]
  | None => lru_keys s' = lru_keys s1
  end.
Proof.
  intros Hc W Hs Em H. destruct (u_get_exact _ _ _ _ _ _ _ _ Hc W Hs Em H) as (Hm & _ & _ & Hl).
  split; [|exact Hl]. unfold view. by rewrite Hm.
Qed.

(** * invalidate *)
Lemma evict_key c pk s k e :
  WFs c pk s -> u_map s !! k = Some e -> Some k <> pk ->
  exists s1, unlink_entry (UModel.set_map s (delete k (u_map s))) e = Ok s1 /\ WFs c pk s1 /\
    shrinks s s1 /\ u_map s1 = delete k (u_map s) /\ u_ec s1 = u_ec s /\ u_ws s1 = u_ws s /\
    lru_keys s1 = List.filter (nkey k) (lru_keys s).
Proof.
  intros W Hk Hpk.
  destruct (evict_one _ _ _ _ _ W Hk Hpk) as (s1 & E1 & W1 & Sh & Hm & Hec & Hws & Hpr & _).
  destruct (ws_map_ao _ _ _ W _ _ Hk Hpk) as (n & nd & Hao & Hin & Hkey & _).
  exists s1. do 6 (split; [done|]).
  rewrite !lru_keys_eq, (Hpr _ Hao).
  rewrite (keys_remove_id n nd); [by rewrite Hkey| |].
  - rewrite <-lru_keys_eq. by eapply wfs_keys_nodup.
  - apply elem_find_id; [apply W|done].
Qed.

Theorem u_invalidate_exact c s now k s1 ts s' :
  cfg_ok c -> WF' c s -> small s -> maintain c s now = Ok (s1, ts) -> u_invalidate c s now k = Ok s' ->
  view s' = delete k (view s1) /\ lru_keys s' = List.filter (fun x => negb (x =? k)) (lru_keys s1).
Proof.
  intros Hc W Hs Em H.
  destruct (maintain_post _ _ _ _ _ Hc W Hs Em) as ([W1 _] & _).
  apply WF_WFs in W1 as (W1 & _).
  unfold u_invalidate in H. rewrite Em in H. cbn [rbind] in H.
  destruct (u_map s1 !! k) as [e|] eqn:Hk.
  - destruct (evict_key _ _ _ _ _ W1 Hk ltac:(done)) as (s2 & E2 & _ & _ & Hm & _ & _ & Hl).
    rewrite E2 in H. cbn [rbind] in H. apply rbind_Ok in H as (ec & _ & [= <-]).
    unfold view. rewrite !lru_keys_eq. simpl_set. rewrite <-!lru_keys_eq. split; [|done].
    by rewrite Hm, fmap_delete.
  - injection H as <-. split.
    + rewrite delete_notin; [done|]. unfold view. by rewrite lookup_fmap, Hk.
    + symmetry. apply lfilter_nkey_notin. by eapply wfs_notin_keys.
Qed.

(** * invalidate_entries_if *)
Lemma forallb_nkey (x : N) (K : list N) :
  forallb (fun k => negb (x =? k)) K = negb (bool_decide (x ∈ K)).
Proof.
  induction K as [|a K IH]; cbn [forallb]; [done|]. rewrite IH.
  destruct (N.eqb_spec x a) as [->|Hne]; cbn [negb andb].
  - rewrite bool_decide_eq_true_2; [done|left].
  - destruct (bool_decide (x ∈ K)) eqn:E.
    + apply bool_decide_eq_true in E. rewrite bool_decide_eq_true_2; [done|by right].
    + apply bool_decide_eq_false in E. rewrite bool_decide_eq_false_2; [done|].
      intros H. apply elem_of_cons in H as [?|?]; done.
Qed.

Lemma invalidate_keys_exact c : forall keys s cnt wt s' cnt' wt',
  WFs c None s -> invalidate_keys s keys cnt wt = Ok (s', cnt', wt') ->
  u_map s' = foldr delete (u_map s) keys /\
  lru_keys s' = List.filter (fun x => forallb (fun k => negb (x =? k)) keys) (lru_keys s).
Proof.
  induction keys as [|k keys IH]; intros s cnt wt s' cnt' wt' W; cbn [invalidate_keys].
  { intros [= <- _ _]. cbn [foldr forallb]. split; [done|]. symmetry. by apply lfilter_all. }
  assert (Hstep : forall s1 cnt1 wt1, WFs c None s1 -> u_map s1 = delete k (u_map s) ->
            lru_keys s1 = List.filter (nkey k) (lru_keys s) ->
            invalidate_keys s1 keys cnt1 wt1 = Ok (s', cnt', wt') ->
            u_map s' = foldr delete (u_map s) (k :: keys) /\
            lru_keys s' = List.filter (fun x => forallb (fun k => negb (x =? k)) (k :: keys)) (lru_keys s)).
  { intros s1 cnt1 wt1 W1 Hm Hl H. destruct (IH _ _ _ _ _ _ W1 H) as (Hm' & Hl').
    split.
    - rewrite Hm', Hm. cbn [foldr]. apply foldr_delete_comm.
    - rewrite Hl', Hl, lfilter_lfilter. done. }
  destruct (u_map s !! k) as [e|] eqn:Hk.
  - destruct (evict_key _ _ _ _ _ W Hk ltac:(done)) as (s1 & E1 & W1 & _ & Hm & _ & _ & Hl).
    rewrite E1. cbn [rbind]. by apply Hstep.
  - apply Hstep; [done| |].
    + by rewrite delete_notin.
    + symmetry. apply lfilter_nkey_notin. by eapply wfs_notin_keys.
Qed.

Theorem u_invalidate_if_exact c s p s' :
  cfg_ok c -> WF' c s -> small s -> u_invalidate_if s p = Ok s' ->
  view s' = filter (fun kv => p kv.1 kv.2 = false) (view s) /\
  lru_keys s' = List.filter (fun x => match view s !! x with Some v => negb (p x v) | None => true end) (lru_keys s).
Proof.
  intros Hc [W _] Hs H. apply WF_WFs in W as (W & _).
  unfold u_invalidate_if in H.
  set (K := List.filter _ _) in H.
  apply rbind_Ok in H as ([[s1 cnt] wt] & E & H). apply rbind_Ok in H as (ec & _ & [= <-]).
  destruct (invalidate_keys_exact c _ _ _ _ _ _ _ W E) as (Hm & Hl).
  assert (HK : forall x, x ∈ K <-> exists e, u_map s !! x = Some e /\ p x (ue_val e) = true).
  { intros x. subst K. rewrite elem_of_list_In, filter_In, <-elem_of_list_In. split.
    - intros [_ Hx]. destruct (u_map s !! x) as [e|]; [eauto|done].
    - intros (e & He & Hp). rewrite He. split; [|done].
      apply elem_of_list_fmap. exists (x, e). split; [done|]. by apply elem_of_map_to_list. }
  unfold view. rewrite !lru_keys_eq. simpl_set. rewrite <-!lru_keys_eq. split.
  - rewrite Hm. apply map_eq. intros i. rewrite lookup_fmap, lookup_foldr_delete.
    destruct (u_map s !! i) as [e|] eqn:Hi.
    + destruct (p i (ue_val e)) eqn:Hp.
      * rewrite bool_decide_eq_true_2 by (apply HK; eauto). symmetry.
        apply map_filter_lookup_None. right. intros v Hv. rewrite lookup_fmap, Hi in Hv.
        injection Hv as <-. cbn [fst snd]. congruence.
      * rewrite bool_decide_eq_false_2.
        2:{ intros Hin. apply HK in Hin as (e' & He' & Hp'). congruence. }
        cbn [fmap option_fmap option_map]. symmetry. apply map_filter_lookup_Some. split; [by rewrite lookup_fmap, Hi|done].
    + assert ((ue_val <$> (if bool_decide (i ∈ K) then None else @None uentry)) = None) as ->.
      { destruct (bool_decide (i ∈ K)); done. }
      symmetry. apply map_filter_lookup_None. left. by rewrite lookup_fmap, Hi.
  - rewrite Hl. apply lfilter_ext. intros x Hx. rewrite forallb_nkey.
    destruct (wfs_key_in_map _ _ _ _ W Hx) as [e He]. rewrite lookup_fmap, He. cbn [fmap option_fmap option_map].
    destruct (p x (ue_val e)) eqn:Hp; cbn [negb].
    + rewrite bool_decide_eq_true_2; [done|]. apply HK. eauto.
    + rewrite bool_decide_eq_false_2; [done|]. intros Hin. apply HK in Hin as (e' & He' & Hp'). congruence.
Qed.

(** * The weighted size never grows beyond the capacity, except by a weight-growing update *)
Theorem ustep_capacity c r o r' out cap :
  cfg_ok c -> WF' c (ur_state r) -> small (ur_state r) -> ustep c r o = Ok (r', out) -> uc_cap c = Some cap ->
  let grow := match o with
              | UInsert k v => match u_map (ur_state r) !! k with
                               | Some e => weigh c k v - ue_weight e | None => 0 end
              | _ => 0 end in
  u_ws (ur_state r') <= N.max cap (u_ws (ur_state r)) + grow.
Proof.
  intros Hc W Hs H Hcap grow. destruct r as [s now]. cbn [ur_state ur_now] in *.
  destruct o as [k v|k|k| |k| |p|d]; cbn [ustep ur_state ur_now] in H; subst grow.
  - apply rbind_Ok in H as (s' & E & [= <- _]). cbn [ur_state].
    destruct (maintain_wf c s now Hc W Hs) as (s1 & ts & Em & _).
    destruct (maintain_post _ _ _ _ _ Hc W Hs Em) as (W1 & Hn1 & Hts & Sh).
    pose proof (shrinks_ws c s s1 W W1 Sh) as Hle1.
    destruct (u_map s1 !! k) as [e|] eqn:Hk.
    + destruct (u_insert_update _ _ _ _ _ _ _ _ _ Hc W Hs Em Hk E) as (_ & _ & Hw).
      assert (Hk0 : u_map s !! k = Some e) by (eapply lookup_weaken; [exact Hk|apply Sh]).
      rewrite Hk0. lia.
    + rewrite (u_insert_unfold _ _ _ _ _ _ _ Em), Hk in E.
      apply handle_insert_exact in E; [|done..].
      destruct E as [(Hf & _ & _ & Hw)|(_ & [(_ & (_ & _ & _ & Hw))|(_ & Hadm)])].
      * unfold has_enough_capacity, chk_add64 in Hf. rewrite Hcap in Hf.
        destruct (_ <? two64); cbn [rbind] in Hf; [|done]. injection Hf as Hf. apply N.leb_le in Hf.
        destruct (u_map s !! k); lia.
      * destruct (u_map s !! k); lia.
      * destruct (tinylfu_victims _ _ _) as [vs|].
        -- destruct Hadm as (_ & _ & _ & Hw & Hle). destruct (u_map s !! k); lia.
        -- destruct Hadm as (_ & _ & _ & Hw). destruct (u_map s !! k); lia.
  - apply rbind_Ok in H as ([s' v] & E & [= <- _]). cbn [ur_state].
    destruct (maintain_wf c s now Hc W Hs) as (s1 & ts & Em & _).
    destruct (maintain_post _ _ _ _ _ Hc W Hs Em) as (W1 & Hn1 & Hts & Sh).
    pose proof (shrinks_ws c s s1 W W1 Sh) as Hle1.
    destruct (u_get_exact _ _ _ _ _ _ _ _ Hc W Hs Em E) as (_ & Hw & _). lia.
  - apply rbind_Ok in H as ([s' b] & E & [= <- _]). cbn [ur_state].
    destruct (u_contains_frame _ _ _ _ _ _ E) as (ts & Em).
    destruct (maintain_post _ _ _ _ _ Hc W Hs Em) as (W1 & Hn1 & Hts & Sh).
    pose proof (shrinks_ws c s s' W W1 Sh) as Hle1. lia.
  - apply rbind_Ok in H as (l & _ & [= <- _]). cbn [ur_state]. lia.
  - apply rbind_Ok in H as (s' & E & [= <- _]). cbn [ur_state].
    destruct (u_invalidate_ok c s now k Hc W Hs) as (s'' & E' & W' & _ & _ & Sh).
    rewrite E in E'. injection E' as <-.
    pose proof (shrinks_ws c s s' W W' Sh) as Hle1. lia.
  - injection H as <- _. cbn [ur_state u_invalidate_all u_ws]. lia.
  - apply rbind_Ok in H as (s' & E & [= <- _]). cbn [ur_state].
    destruct (u_invalidate_if_ok c s p Hc W Hs) as (s'' & E' & W' & _ & _ & Sh).
    rewrite E in E'. injection E' as <-.
    pose proof (shrinks_ws c s s' W W' Sh) as Hle1. lia.
  - injection H as <- _. cbn [ur_state]. lia.
Qed.

(** * Why the maintenance removes an entry *)
Lemma sublist_elem {A} (l k : list A) x : sublist l k -> x ∈ l -> x ∈ k.
Proof. intros Hs Hx. eapply elem_of_submseteq; [exact Hx|by apply sublist_submseteq]. Qed.

Lemma remove_expired_wo_cause c fuel : forall s now cnt wt s' cnt' wt',
  WFs c None s -> remove_expired_wo c fuel s now cnt wt = Ok (s', cnt', wt') ->
  WFs c None s' /\ shrinks s s' /\
  forall k e, u_map s !! k = Some e -> u_map s' !! k = None ->
    exists nid nd, ue_wo e = Some nid /\ (nid, nd) ∈ u_wo s /\ expired_at (uc_ttl c) (wn_ts nd) now = true.
Proof.
  induction fuel as [|fuel IH]; intros s now cnt wt s' cnt' wt' W; cbn [remove_expired_wo].
  { intros [= <- _ _]. split; [done|]. split; [apply shrinks_refl|]. intros; congruence. }
  destruct (u_wo s) as [|[nid nd] rest] eqn:Ewo.
  { intros [= <- _ _]. split; [done|]. split; [apply shrinks_refl|]. intros; congruence. }
  destruct (expired_at (uc_ttl c) (wn_ts nd) now) eqn:Eex.
  2:{ intros [= <- _ _]. split; [done|]. split; [apply shrinks_refl|]. intros; congruence. }
  assert (Hin : (nid, nd) ∈ u_wo s) by (rewrite Ewo; left).
  destruct (ws_wo_map _ _ _ W _ _ Hin) as (_ & e0 & He0 & Hwo0). rewrite He0.
  destruct (evict_one _ _ _ _ _ W He0 ltac:(done)) as (s1 & E1 & W1 & Sh & Hm & _).
  rewrite E1. cbn [rbind]. intros H.
  destruct (IH _ _ _ _ _ _ _ W1 H) as (W' & Sh' & C').
  split; [done|]. split; [by eapply shrinks_trans|].
  intros k e Hk Hk'. destruct (decide (k = wn_key nd)) as [->|Hne].
  - rewrite He0 in Hk. injection Hk as <-. exists nid, nd. split; [done|]. split; [left|done].
  - destruct (C' k e) as (n' & nd' & ? & Hin' & ?); [by rewrite Hm, lookup_delete_ne|done|].
    exists n', nd'. split; [done|]. split; [|done].
    destruct Sh as (_ & _ & Swo & _). rewrite <-Ewo. by eapply sublist_elem.
Qed.

Lemma remove_expired_ao_cause c fuel : forall s now cnt wt s' cnt' wt',
  WFs c None s -> remove_expired_ao c fuel s now cnt wt = Ok (s', cnt', wt') ->
  WFs c None s' /\ shrinks s s' /\
  forall k e, u_map s !! k = Some e -> u_map s' !! k = None ->
    exists nid nd, ue_ao e = Some nid /\ (nid, nd) ∈ u_prob s /\ expired_at (uc_tti c) (an_ts nd) now = true.
Proof.
  induction fuel as [|fuel IH]; intros s now cnt wt s' cnt' wt' W; cbn [remove_expired_ao].
  { intros [= <- _ _]. split; [done|]. split; [apply shrinks_refl|]. intros; congruence. }
  destruct (u_prob s) as [|[nid nd] rest] eqn:Ep.
  { intros [= <- _ _]. split; [done|]. split; [apply shrinks_refl|]. intros; congruence. }
  destruct (expired_at (uc_tti c) (an_ts nd) now) eqn:Eex.
  2:{ intros [= <- _ _]. split; [done|]. split; [apply shrinks_refl|]. intros; congruence. }
  assert (Hin : (nid, nd) ∈ u_prob s) by (rewrite Ep; left).
  destruct (ws_ao_map _ _ _ W _ _ Hin) as (e0 & He0 & Hao0). rewrite He0.
  destruct (evict_one _ _ _ _ _ W He0 ltac:(done)) as (s1 & E1 & W1 & Sh & Hm & _).
  rewrite E1. cbn [rbind]. intros H.
  destruct (IH _ _ _ _ _ _ _ W1 H) as (W' & Sh' & C').
  split; [done|]. split; [by eapply shrinks_trans|].
  intros k e Hk Hk'. destruct (decide (k = an_key nd)) as [->|Hne].
  - rewrite He0 in Hk. injection Hk as <-. exists nid, nd. split; [done|]. split; [left|done].
  - destruct (C' k e) as (n' & nd' & ? & Hin' & ?); [by rewrite Hm, lookup_delete_ne|done|].
    exists n', nd'. split; [done|]. split; [|done].
    destruct Sh as (_ & Sao & _). rewrite <-Ep. by eapply sublist_elem.
Qed.

Lemma expired_wo_entry c s e now nid nd :
  WFs c None s -> ue_wo e = Some nid -> (nid, nd) ∈ u_wo s ->
  expired_at (uc_ttl c) (wn_ts nd) now = true -> entry_expired c s e now = Ok true.
Proof.
  intros W Hwo Hin Hex. unfold entry_expired, entry_lm.
  rewrite Hwo, (elem_find_id _ _ _ (ws_nodup_wo _ _ _ W) Hin). cbn [rbind]. by rewrite Hex.
Qed.

Lemma expired_ao_entry c s k e now nid nd :
  WFs c None s -> u_map s !! k = Some e -> ue_ao e = Some nid -> (nid, nd) ∈ u_prob s ->
  expired_at (uc_tti c) (an_ts nd) now = true -> entry_expired c s e now = Ok true.
Proof.
  intros W Hk Hao Hin Hex.
  destruct (entry_expired_ok c None s k e now W Hk ltac:(done)) as (b & Eb). rewrite Eb. f_equal.
  unfold entry_expired in Eb. apply rbind_Ok in Eb as (lm & _ & Eb).
  destruct (expired_at (uc_ttl c) lm now); [congruence|].
  unfold entry_la in Eb. rewrite Hao, (elem_find_id _ _ _ (ws_nodup_ao _ _ _ W) Hin) in Eb.
  cbn [rbind] in Eb. congruence.
Qed.

Lemma evict_expired_cause c s now s0 k e :
  cfg_ok c -> WF c s -> evict_expired c s now = Ok s0 ->
  u_map s !! k = Some e -> u_map s0 !! k = None -> entry_expired c s e now = Ok true.
Proof.
  intros Hc W H Hk Hk0. apply WF_WFs in W as (W & _). unfold evict_expired in H.
  apply rbind_Ok in H as (sA & E1 & E2).
  assert (HA : WFs c None sA /\ shrinks s sA /\
               (u_map sA !! k = None -> entry_expired c s e now = Ok true)).
  { destruct (uc_ttl c) as [ttl|] eqn:Ettl.
    - apply rbind_Ok in E1 as ([[sa cnt] wt] & Ewo & E1). apply rbind_Ok in E1 as (ec & _ & [= <-]).
      destruct (remove_expired_wo_cause _ _ _ _ _ _ _ _ _ W Ewo) as (Wa & Sha & Ca).
      split; [by apply WFs_set_counters|]. split.
      + destruct Sha as (? & ? & ? & ? & ? & ?). repeat split; simpl_set; done.
      + simpl_set. intros Hnone. destruct (Ca k e Hk Hnone) as (nid & nd & Hwo & Hin & Hex).
        by eapply expired_wo_entry.
    - injection E1 as <-. split; [done|]. split; [apply shrinks_refl|]. congruence. }
  destruct HA as (WA & ShA & CA). destruct (u_map sA !! k) as [e'|] eqn:HkA; [|by apply CA].
  assert (e' = e) as ->.
  { assert (u_map s !! k = Some e') by (eapply lookup_weaken; [exact HkA|apply ShA]). congruence. }
  destruct (uc_tti c) as [tti|] eqn:Etti.
  - apply rbind_Ok in E2 as ([[sb cnt] wt] & Eao & E2). apply rbind_Ok in E2 as (ec & _ & [= <-]).
    destruct (remove_expired_ao_cause _ _ _ _ _ _ _ _ _ WA Eao) as (Wb & Shb & Cb).
    simpl_set. destruct (Cb k e HkA Hk0) as (nid & nd & Hao & Hin & Hex).
    apply (expired_ao_entry c s k e now nid nd W Hk Hao); [|done].
    destruct ShA as (_ & Sao & _). by eapply sublist_elem.
  - injection E2 as <-. congruence.
Qed.

Theorem maintain_removal_causes c s now s1 ts k e :
  cfg_ok c -> WF' c s -> small s -> maintain c s now = Ok (s1, ts) ->
  u_map s !! k = Some e -> u_map s1 !! k = None ->
  entry_expired c s e now = Ok true \/ (exists cap, uc_cap c = Some cap /\ cap < u_ws s).
Proof.
  intros Hc W Hs E Hk Hk1.
  destruct (maintain_split _ _ _ _ _ Hc W Hs E) as (s0 & Hex & W0 & Hs0 & Sh0 & E1).
  destruct (u_map s0 !! k) as [e0|] eqn:Hk0.
  - right.
    destruct (evict_lru_entries_exact c s0 s1 Hc W0 Hs0 E1) as (n & _ & _ & Hm & _ & _ & _ & Hmin & _).
    destruct Hmin as [->|Hlt].
    + rewrite take_0 in Hm. cbn [foldr] in Hm. congruence.
    + unfold over in Hlt. destruct (uc_cap c) as [cap|]; [|lia]. exists cap. split; [done|].
      pose proof (shrinks_ws c s s0 W W0 Sh0). lia.
  - left. destruct (has_expiry c); [|subst; congruence].
    eapply evict_expired_cause; [done|apply W|exact Hex|done|done].
Qed.

(** * Non-vacuity: a concrete cache of capacity 2 (no weigher) *)
Definition ex_cfg : ucfg := mkUCfg (Some 2) None None None (fun k => k mod two64).

Lemma ex_cfg_ok : cfg_ok ex_cfg.
Proof.
  split; [intros f k v [=]|]. intros k. cbn [uc_hash ex_cfg]. apply N.mod_lt. done.
Qed.

Definition ex_state (ops : list uop) : ustate :=
  match urun_ops ex_cfg urun_init ops with Ok (r, _) => ur_state r | Err _ => u_init end.

Definition ex_warm : list uop := [UInsert 1 10; UInsert 2 20; UGet 3; UGet 3].
Definition ex_cold : list uop := [UInsert 1 10; UInsert 2 20].

Lemma ex_state_wf ops : N.of_nat (length ops) < 2 ^ 24 -> WF' ex_cfg (ex_state ops).
Proof.
  intros Hl. destruct (urun_safe ex_cfg ops ex_cfg_ok Hl) as (r & outs & E & W).
  unfold ex_state. by rewrite E.
Qed.

(** Key 3 was looked up twice (estimate 2 > 0 = estimate of the LRU resident 1):
    it is admitted, evicting exactly the LRU entry.  Without the look-ups it is rejected. *)
Example admission_example :
  let s := ex_state ex_warm in
  let s' := ex_state (ex_warm ++ [UInsert 3 30]) in
  let t := ex_state ex_cold in
  let t' := ex_state (ex_cold ++ [UInsert 3 30]) in
  (* the hypotheses of [u_insert_admission] hold in both runs *)
  (WF' ex_cfg s /\ small s /\ maintain ex_cfg s 0 = Ok (s, None) /\ u_map s !! 3 = None /\
   has_enough_capacity ex_cfg (weigh ex_cfg 3 30) (u_ws s) = Ok false /\
   u_insert ex_cfg s 0 3 30 = Ok s') /\
  (WF' ex_cfg t /\ small t /\ maintain ex_cfg t 0 = Ok (t, None) /\ u_map t !! 3 = None /\
   has_enough_capacity ex_cfg (weigh ex_cfg 3 30) (u_ws t) = Ok false /\
   u_insert ex_cfg t 0 3 30 = Ok t') /\
  (* admitted *)
  map_to_list (view s) = [(1, 10); (2, 20)] /\ lru_keys s = [1; 2] /\
  lru_triples ex_cfg s = [(1, 1, 0); (2, 1, 0)] /\ frequency (u_sk s) (uc_hash ex_cfg 3) = 2 /\
  tinylfu_victims (lru_triples ex_cfg s) (weigh ex_cfg 3 30) (frequency (u_sk s) (uc_hash ex_cfg 3))
    = Some [(1, 1, 0)] /\
  map_to_list (view s') = [(3, 30); (2, 20)] /\ lru_keys s' = [2; 3] /\ u_ws s' = 2 /\
  (* rejected *)
  frequency (u_sk t) (uc_hash ex_cfg 3) = 0 /\
  tinylfu_victims (lru_triples ex_cfg t) (weigh ex_cfg 3 30) (frequency (u_sk t) (uc_hash ex_cfg 3))
    = None /\
  map_to_list (view t') = [(1, 10); (2, 20)] /\ lru_keys t' = [1; 2] /\ u_ws t' = 2.
Proof.
  cbv zeta. split; [|split].
  - split; [apply ex_state_wf; rewrite pow2_24; by vm_compute|].
    split; [split; by vm_compute|].
    repeat match goal with |- _ /\ _ => split end; vm_compute; reflexivity.
  - split; [apply ex_state_wf; rewrite pow2_24; by vm_compute|].
    split; [split; by vm_compute|].
    repeat match goal with |- _ /\ _ => split end; vm_compute; reflexivity.
  - repeat match goal with |- _ /\ _ => split end; vm_compute; reflexivity.
Qed.

(** the policy theorem instantiated on the example agrees with the computation *)
Example admission_example_thm :
  let s := ex_state ex_warm in
  let s' := ex_state (ex_warm ++ [UInsert 3 30]) in
  view s' = <[3 := 30]> (delete_keys [1] (view s)) /\ lru_keys s' = drop 1 (lru_keys s) ++ [3].
Proof.
  cbv zeta.
  destruct admission_example as ((W & Hs & Em & Hk & Hcap & E) & _ & _ & _ & _ & _ & Hv & _).
  assert (Hfit : forall cap, uc_cap ex_cfg = Some cap -> weigh ex_cfg 3 30 <= cap).
  { intros cap [= <-]. by vm_compute. }
  pose proof (u_insert_admission ex_cfg _ 0 3 30 _ _ _ ex_cfg_ok W Hs Em Hk Hcap Hfit E) as H.
  rewrite Hv in H. destruct H as (A & B & _). split; [exact A|exact B].
Qed.

Print Assumptions u_insert_fits.
Print Assumptions u_insert_oversized.
Print Assumptions u_insert_update.
Print Assumptions u_insert_admission.
Print Assumptions u_insert_admission_ws.
Print Assumptions evict_lru_prefix.
Print Assumptions maintain_capacity.
Print Assumptions ustep_capacity.
Print Assumptions maintain_removal_causes.
Print Assumptions u_get_recency.
Print Assumptions u_invalidate_exact.
Print Assumptions u_invalidate_if_exact.
Print Assumptions admission_example.
Print Assumptions admission_example_thm.

(** Summary.  Every target statement is proved as stated (none needed a [_partial]
    variant).  Additional exported facts: [u_insert_admission_ws] (weighted size after an
    admission), [handle_insert_exact] (the three outcomes of inserting a new key),
    [evict_lru_entries_exact], [u_get_exact], [evict_expired_cause],
    [admission_example_thm] (the admission theorem instantiated on the example run). *)
