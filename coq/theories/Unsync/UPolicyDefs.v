(** Vocabulary for the eviction / admission policy theorems of the single-threaded
    cache (C03, C04, C12, C13).  Definitions only. *)
From MM Require Export Unsync.UInvDefs.

(** key -> value view of the map *)
Definition view (s : ustate) : gmap N N := ue_val <$> u_map s.

(** The LRU order as (key, weight, popularity estimate) triples, front = least recently used. *)
Definition lru_triples (c : ucfg) (s : ustate) : list (N * N * N) :=
  (fun nd => (an_key nd,
              match u_map s !! an_key nd with Some e => ue_weight e | None => 0 end,
              frequency (u_sk s) (an_hash nd))) <$> (u_prob s).*2.

Definition sum_w (l : list (N * N * N)) : N := foldr (fun t acc => t.1.2 + acc) 0 l.
Definition sum_f (l : list (N * N * N)) : N := foldr (fun t acc => t.2 + acc) 0 l.

(** the shortest prefix of [l] whose weight reaches [need] (None if even the whole list does not) *)
Fixpoint shortest_prefix (l : list (N * N * N)) (need : N) : option (list (N * N * N)) :=
  if need =? 0 then Some []
  else match l with
       | [] => None
       | t :: r => match shortest_prefix r (need - t.1.2) with
                   | Some p => Some (t :: p)
                   | None => None
                   end
       end.

(** TinyLFU: admit iff the shortest LRU prefix with weight >= w exists and the candidate's
    estimate is strictly greater than the summed estimates of that prefix. *)
Definition tinylfu_victims (l : list (N * N * N)) (w f : N) : option (list (N * N * N)) :=
  match shortest_prefix l w with
  | Some p => if sum_f p <? f then Some p else None
  | None => None
  end.

Definition delete_keys (ks : list N) (m : gmap N N) : gmap N N := foldr delete m ks.
