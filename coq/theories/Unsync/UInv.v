(** The well-formedness invariant of the unsync cache model is inductive, and
    under it no step of the model fails. *)
From MM Require Import Sketch.SketchProofs.
From MM Require Export Unsync.UInvDefs.
From Coq Require Import Lia.

(** * Constants *)
Lemma pow2_32 : 2 ^ 32 = 4294967296. Proof. reflexivity. Qed.
Lemma pow2_27 : 2 ^ 27 = 134217728. Proof. reflexivity. Qed.
Lemma pow2_28 : 2 ^ 28 = 268435456. Proof. reflexivity. Qed.
Lemma pow2_24 : 2 ^ 24 = 16777216. Proof. reflexivity. Qed.

Ltac simpl_set :=
  cbn [u_map u_prob u_wo u_ec u_ws u_sk u_skon u_next
       UModel.set_map set_prob set_wo set_ec set_ws set_sk set_next] in *.

Lemma sublist_nodup {A} (l k : list A) : sublist l k -> NoDup k -> NoDup l.
Proof.
  intros Hs Hnd. apply sublist_submseteq, submseteq_Permutation in Hs as [k' Hk'].
  rewrite Hk' in Hnd. by apply NoDup_app in Hnd as [? _].
Qed.

(** * Id-tagged lists *)
Section ids.
  Context {A : Type}.
  Implicit Types l : list (N * A).

  Lemma find_id_Some_elem n l a : find_id n l = Some a -> (n, a) ∈ l.
  Proof.
    induction l as [|[m b] l IH]; cbn [find_id]; [done|].
    destruct (N.eqb_spec m n) as [->|Hne].
    - intros [= ->]. left.
    - intros H. right. auto.
  Qed.

  Lemma find_id_None n l : find_id n l = None -> n ∉ l.*1.
  Proof.
    induction l as [|[m b] l IH]; cbn [find_id]; [intros _; apply not_elem_of_nil|].
    destruct (N.eqb_spec m n) as [->|Hne]; [done|].
    intros H. rewrite fmap_cons. cbn [fst]. rewrite not_elem_of_cons. split; auto.
  Qed.

  Lemma elem_fst n a l : (n, a) ∈ l -> n ∈ l.*1.
  Proof. intros H. apply elem_of_list_fmap. exists (n, a). done. Qed.

  Lemma elem_find_id n a l : NoDup l.*1 -> (n, a) ∈ l -> find_id n l = Some a.
  Proof.
    induction l as [|[m b] l IH]; [intros _ H; by apply elem_of_nil in H|].
    rewrite fmap_cons. cbn [fst find_id]. intros Hnd H.
    apply NoDup_cons in Hnd as [Hnotin Hnd].
    apply elem_of_cons in H as [[= <- <-]|H].
    - by rewrite N.eqb_refl.
    - destruct (N.eqb_spec m n) as [->|Hne]; [|auto].
      exfalso. apply Hnotin. by eapply elem_fst.
  Qed.

  Lemma elem_unique l n a b : NoDup l.*1 -> (n, a) ∈ l -> (n, b) ∈ l -> a = b.
  Proof.
    intros Hnd Ha Hb. apply (elem_find_id _ _ _ Hnd) in Ha, Hb. congruence.
  Qed.

  Lemma elem_mem_id n a l : (n, a) ∈ l -> mem_id n l = true.
  Proof.
    intros H. unfold mem_id. destruct (find_id n l) eqn:E; [done|].
    apply find_id_None in E. exfalso. apply E. by eapply elem_fst.
  Qed.

  Lemma remove_id_sublist n l : sublist (remove_id n l) l.
  Proof.
    induction l as [|[m b] l IH]; cbn [remove_id]; [constructor|].
    destruct (N.eqb m n).
    - by apply sublist_cons.
    - by apply sublist_skip.
  Qed.

  Lemma remove_id_head n a l : remove_id n ((n, a) :: l) = l.
  Proof. cbn [remove_id]. by rewrite N.eqb_refl. Qed.

  Lemma elem_remove_id n l m b :
    NoDup l.*1 -> (m, b) ∈ remove_id n l <-> (m, b) ∈ l /\ m <> n.
  Proof.
    induction l as [|[m' b'] l IH]; cbn [remove_id].
    - intros _. split; [intros H; by apply elem_of_nil in H|intros [H _]; by apply elem_of_nil in H].
    - rewrite fmap_cons. cbn [fst]. intros Hnd. apply NoDup_cons in Hnd as [Hnotin Hnd].
      destruct (N.eqb_spec m' n) as [->|Hne].
      + split.
        * intros H. split; [by right|]. intros ->. apply Hnotin. by eapply elem_fst.
        * intros [H Hmn]. apply elem_of_cons in H as [[= -> ->]|H]; [done|done].
      + rewrite !elem_of_cons, (IH Hnd). split.
        * intros [[= -> ->]|[H Hmn]]; [split; [by left|done]|split; [by right|done]].
        * intros [[[= -> ->]|H] Hmn]; [by left|right; done].
  Qed.

  Lemma remove_id_nodup n l : NoDup l.*1 -> NoDup (remove_id n l).*1.
  Proof.
    intros H. eapply sublist_nodup; [|exact H].
    apply fmap_sublist, remove_id_sublist.
  Qed.

  Lemma remove_id_perm n a l : find_id n l = Some a -> l ≡ₚ (n, a) :: remove_id n l.
  Proof.
    induction l as [|[m b] l IH]; cbn [find_id remove_id]; [done|].
    destruct (N.eqb_spec m n) as [->|Hne].
    - intros [= ->]. done.
    - intros H. rewrite (IH H) at 1. apply Permutation_swap.
  Qed.

  Lemma move_back_perm n a l : find_id n l = Some a -> remove_id n l ++ [(n, a)] ≡ₚ l.
  Proof.
    intros H. rewrite (remove_id_perm _ _ _ H) at 2.
    by rewrite <-Permutation_cons_append.
  Qed.

  Lemma update_id_fst n f l : (update_id n f l).*1 = l.*1.
  Proof.
    induction l as [|[m b] l IH]; cbn [update_id]; [done|].
    destruct (N.eqb m n); rewrite !fmap_cons; cbn [fst]; [done|by rewrite IH].
  Qed.

  Lemma elem_update_id n f l m b :
    NoDup l.*1 ->
    (m, b) ∈ update_id n f l ->
    (m <> n /\ (m, b) ∈ l) \/ (m = n /\ exists a, (n, a) ∈ l /\ b = f a).
  Proof.
    induction l as [|[m' b'] l IH]; cbn [update_id].
    - intros _ H. by apply elem_of_nil in H.
    - rewrite fmap_cons. cbn [fst]. intros Hnd. apply NoDup_cons in Hnd as [Hnotin Hnd].
      destruct (N.eqb_spec m' n) as [->|Hne].
      + intros H. apply elem_of_cons in H as [[= -> ->]|H].
        * right. split; [done|]. exists b'. split; [left|done].
        * left. split; [|by right]. intros ->. apply Hnotin. by eapply elem_fst.
      + intros H. apply elem_of_cons in H as [[= -> ->]|H].
        * left. split; [done|left].
        * destruct (IH Hnd H) as [[? ?]|[-> (a & Ha & ->)]].
          -- left. split; [done|by right].
          -- right. split; [done|]. exists a. split; [by right|done].
  Qed.

  Lemma nodup_snoc n a l :
    NoDup l.*1 -> n ∉ l.*1 -> NoDup (l ++ [(n, a)]).*1.
  Proof.
    intros Hnd Hn. rewrite fmap_app. apply NoDup_app. split; [done|].
    split; [|apply NoDup_singleton].
    intros x Hx Hx'. cbn in Hx'. apply elem_of_list_singleton in Hx'. by subst.
  Qed.
End ids.

(** pigeonhole: a duplicate-free list of numbers below [b] has at most [b] elements *)
Lemma nodup_bounded_length (l : list N) (b : N) :
  NoDup l -> (forall n, n ∈ l -> n < b) -> N.of_nat (length l) <= b.
Proof.
  intros Hnd Hb.
  assert (H : (length (N.to_nat <$> l) <= length (seq 0 (N.to_nat b)))%nat).
  { apply submseteq_length, NoDup_submseteq.
    - apply NoDup_fmap_2; [apply _|done].
    - intros x Hx. apply elem_of_list_fmap in Hx as (n & -> & Hn).
      apply elem_of_seq. specialize (Hb n Hn). lia. }
  rewrite fmap_length, seq_length in H. lia.
Qed.

(** * Map weight and count *)
Lemma map_weight_empty : map_weight ∅ = 0.
Proof. unfold map_weight. by rewrite map_fold_empty. Qed.

Lemma map_weight_insert m k e :
  m !! k = None -> map_weight (<[k:=e]> m) = map_weight m + ue_weight e.
Proof.
  intros H. unfold map_weight. rewrite map_fold_insert_L; [done| |done].
  intros. lia.
Qed.

Lemma map_weight_delete m k e :
  m !! k = Some e -> map_weight m = map_weight (delete k m) + ue_weight e.
Proof.
  intros H. rewrite <-(insert_id m k e) at 1 by done.
  rewrite <-insert_delete_insert. apply map_weight_insert, lookup_delete.
Qed.

Lemma map_weight_insert_Some m k e e' :
  m !! k = Some e ->
  map_weight (<[k:=e']> m) + ue_weight e = map_weight m + ue_weight e'.
Proof.
  intros H. rewrite (map_weight_delete m k e H).
  rewrite <-insert_delete_insert, map_weight_insert by apply lookup_delete. lia.
Qed.

Lemma map_count_empty : map_count (∅ : gmap N uentry) = 0.
Proof. unfold map_count. by rewrite map_size_empty. Qed.

Lemma map_count_insert_None m k e :
  m !! k = None -> map_count (<[k:=e]> m) = map_count m + 1.
Proof. intros H. unfold map_count. rewrite map_size_insert_None by done. lia. Qed.

Lemma map_count_insert_Some m k (e e' : uentry) :
  m !! k = Some e -> map_count (<[k:=e']> m) = map_count m.
Proof. intros H. unfold map_count. by rewrite map_size_insert_Some. Qed.

Lemma map_count_delete m k (e : uentry) :
  m !! k = Some e -> map_count m = map_count (delete k m) + 1.
Proof.
  intros H. unfold map_count. rewrite map_size_delete, H.
  assert (size m <> 0%nat).
  { apply map_size_non_empty_iff. intros ->. by rewrite lookup_empty in H. }
  lia.
Qed.

Lemma map_weight_bound m B :
  (forall k e, m !! k = Some e -> ue_weight e <= B) -> map_weight m <= map_count m * B.
Proof.
  induction m as [|k e m Hk IH] using map_ind.
  - intros _. rewrite map_weight_empty. lia.
  - intros H. rewrite map_weight_insert, map_count_insert_None by done.
    assert (ue_weight e <= B) by (apply (H k); by rewrite lookup_insert).
    assert (map_weight m <= map_count m * B).
    { apply IH. intros k' e' H'. apply (H k'). rewrite lookup_insert_ne; [done|].
      intros ->. congruence. }
    lia.
Qed.

(** size of the map against the number of access-order nodes *)
Lemma map_count_le_nodes (m : gmap N uentry) (prob : list (N * aonode)) :
  (forall k e, m !! k = Some e -> exists n nd, (n, nd) ∈ prob /\ an_key nd = k) ->
  map_count m <= N.of_nat (length prob).
Proof.
  intros H. unfold map_count.
  assert (Hl : (length (map_to_list m).*1 <= length ((fun x => an_key x.2) <$> prob))%nat).
  { apply submseteq_length, NoDup_submseteq; [apply NoDup_fst_map_to_list|].
    intros k Hk. apply elem_of_list_fmap in Hk as ([k' e] & -> & Hke).
    apply elem_of_map_to_list in Hke. destruct (H _ _ Hke) as (n & nd & Hin & <-).
    apply elem_of_list_fmap. exists (n, nd). done. }
  rewrite !fmap_length in Hl. unfold size, map_size. lia.
Qed.


(** * The structural part of the invariant
    [pk] is an optional "pending" key: a map entry that has been stored by
    [insert] but owns no deque node yet. *)
Record WFs (c : ucfg) (pk : option N) (s : ustate) : Prop := mkWFs {
  ws_nodup_ao : NoDup (u_prob s).*1;
  ws_nodup_wo : NoDup (u_wo s).*1;
  ws_ids_ao : forall n nd, (n, nd) ∈ u_prob s -> n < u_next s;
  ws_ids_wo : forall n nd, (n, nd) ∈ u_wo s -> n < u_next s;
  ws_map_ao : forall k e, u_map s !! k = Some e -> Some k <> pk ->
      exists n nd, ue_ao e = Some n /\ (n, nd) ∈ u_prob s /\ an_key nd = k /\ an_hash nd = uc_hash c k;
  ws_ao_map : forall n nd, (n, nd) ∈ u_prob s ->
      exists e, u_map s !! an_key nd = Some e /\ ue_ao e = Some n;
  ws_map_wo : forall k e, u_map s !! k = Some e -> Some k <> pk ->
      match uc_ttl c with
      | Some _ => exists n nd, ue_wo e = Some n /\ (n, nd) ∈ u_wo s /\ wn_key nd = k
      | None => ue_wo e = None
      end;
  ws_wo_map : forall n nd, (n, nd) ∈ u_wo s ->
      uc_ttl c <> None /\ exists e, u_map s !! wn_key nd = Some e /\ ue_wo e = Some n;
  ws_ts_ao : forall n nd, (n, nd) ∈ u_prob s -> (is_Some (an_ts nd) <-> has_expiry c = true);
  ws_ts_wo : forall n nd, (n, nd) ∈ u_wo s -> is_Some (wn_ts nd);
  ws_weight : forall k e, u_map s !! k = Some e -> ue_weight e = weigh c k (ue_val e);
  ws_sk : sk_wf (u_sk s);
  ws_pend : forall k e, pk = Some k -> u_map s !! k = Some e -> ue_ao e = None /\ ue_wo e = None
}.

Lemma WF_WFs c s :
  WF c s <-> WFs c None s /\ u_ec s = map_count (u_map s) /\ u_ws s = map_weight (u_map s).
Proof.
  split.
  - intros [? ? ? ? Mao ? Mwo ? ? ? ? ? ? ?]. split; [|done]. constructor; try done.
    + intros k e H _. exact (Mao _ _ H).
    + intros k e H _. exact (Mwo _ _ H).
  - intros [[? ? ? ? Mao ? Mwo ? ? ? ? ? ?] [? ?]]. constructor; try done.
    + intros k e Hke. by apply (Mao _ _ Hke).
    + intros k e Hke. by apply (Mwo _ _ Hke).
Qed.

(** frame of the evicting operations *)
Definition shrinks (s s' : ustate) : Prop :=
  u_map s' ⊆ u_map s /\ sublist (u_prob s') (u_prob s) /\ sublist (u_wo s') (u_wo s) /\
  u_sk s' = u_sk s /\ u_skon s' = u_skon s /\ u_next s' = u_next s.

Lemma shrinks_refl s : shrinks s s.
Proof. by repeat split. Qed.

Lemma shrinks_trans s1 s2 s3 : shrinks s1 s2 -> shrinks s2 s3 -> shrinks s1 s3.
Proof.
  intros (A1 & A2 & A3 & A4 & A5 & A6) (B1 & B2 & B3 & B4 & B5 & B6).
  repeat split; try congruence; etrans; eauto.
Qed.

Lemma weigh_lt c k v : cfg_ok c -> weigh c k v < two32.
Proof.
  intros [H _]. unfold weigh. destruct (uc_wf c) eqn:E; [by eapply H|]. by vm_compute.
Qed.

Lemma wfs_weight_lt c pk s k e :
  cfg_ok c -> WFs c pk s -> u_map s !! k = Some e -> ue_weight e < two32.
Proof. intros Hc W H. rewrite (ws_weight _ _ _ W _ _ H). by apply weigh_lt. Qed.

Lemma wfs_prob_length c pk s : WFs c pk s -> N.of_nat (length (u_prob s)) <= u_next s.
Proof.
  intros W. rewrite <-(fmap_length fst). apply nodup_bounded_length; [apply W|].
  intros n Hn. apply elem_of_list_fmap in Hn as ([n' nd] & -> & H). by eapply ws_ids_ao.
Qed.

Lemma wfs_count_bound c pk s : WFs c pk s -> map_count (u_map s) <= u_next s + 1.
Proof.
  intros W. pose proof (wfs_prob_length _ _ _ W) as HL.
  destruct pk as [k|].
  - destruct (u_map s !! k) as [e|] eqn:E.
    + rewrite (map_count_delete _ _ _ E).
      assert (map_count (delete k (u_map s)) <= N.of_nat (length (u_prob s))); [|lia].
      apply map_count_le_nodes. intros k' e' H. apply lookup_delete_Some in H as [Hne H].
      destruct (ws_map_ao _ _ _ W _ _ H) as (n & nd & _ & ? & ? & _); [congruence|eauto].
    + assert (map_count (u_map s) <= N.of_nat (length (u_prob s))); [|lia].
      apply map_count_le_nodes. intros k' e' H.
      destruct (ws_map_ao _ _ _ W _ _ H) as (n & nd & _ & ? & ? & _); [congruence|eauto].
  - assert (map_count (u_map s) <= N.of_nat (length (u_prob s))); [|lia].
    apply map_count_le_nodes. intros k' e' H.
    destruct (ws_map_ao _ _ _ W _ _ H) as (n & nd & _ & ? & ? & _); [congruence|eauto].
Qed.

Lemma wfs_weight_bound c pk s :
  cfg_ok c -> WFs c pk s -> u_next s < 2 ^ 32 -> map_weight (u_map s) <= 4294967296 * 4294967295.
Proof.
  intros Hc W Hn. rewrite pow2_32 in Hn.
  pose proof (wfs_count_bound _ _ _ W).
  assert (map_weight (u_map s) <= map_count (u_map s) * 4294967295); [|lia].
  apply map_weight_bound. intros k e H'.
  pose proof (wfs_weight_lt _ _ _ _ _ Hc W H') as Hl. unfold two32 in Hl. lia.
Qed.

Lemma sat_add64_exact a b : a + b <= 4294967296 * 4294967295 -> sat_add64 a b = a + b.
Proof. intros H. unfold sat_add64, u64_max. lia. Qed.

(** * Removing an entry together with its nodes *)
Lemma wfs_remove c pk s k e n :
  WFs c pk s -> u_map s !! k = Some e -> Some k <> pk -> ue_ao e = Some n ->
  WFs c pk (set_wo (set_prob (UModel.set_map s (delete k (u_map s))) (remove_id n (u_prob s)))
                   (match ue_wo e with Some n2 => remove_id n2 (u_wo s) | None => u_wo s end)).
Proof.
  intros W Hk Hpk Hao.
  destruct W as [Nao Nwo Iao Iwo Mao Aom Mwo Wom Tao Two Wgt Sk Pend].
  set (w := match ue_wo e with Some n2 => remove_id n2 (u_wo s) | None => u_wo s end).
  assert (Hw : forall n' nd', (n', nd') ∈ w <-> (n', nd') ∈ u_wo s /\ ue_wo e <> Some n').
  { subst w. destruct (ue_wo e) as [n2|]; intros n' nd'.
    - rewrite elem_remove_id by done. split; intros [? ?]; (split; [done|congruence]).
    - split; [intros ?; split; done|by intros [? _]]. }
  assert (Hp : forall n' nd', (n', nd') ∈ remove_id n (u_prob s) <-> (n', nd') ∈ u_prob s /\ n' <> n).
  { intros. by apply elem_remove_id. }
  constructor; simpl_set.
  - by apply remove_id_nodup.
  - subst w. destruct (ue_wo e); [by apply remove_id_nodup|done].
  - intros n' nd' H. apply Hp in H as [H _]. eauto.
  - intros n' nd' H. apply Hw in H as [H _]. eauto.
  - intros k' e' H Hpk'. apply lookup_delete_Some in H as [Hne H].
    destruct (Mao _ _ H Hpk') as (n' & nd' & E1 & E2 & E3 & E4).
    exists n', nd'. split; [done|]. split; [|done].
    apply Hp. split; [done|]. intros ->.
    destruct (Mao _ _ Hk Hpk) as (n0 & nd0 & F1 & F2 & F3 & F4).
    rewrite Hao in F1. injection F1 as <-.
    assert (nd' = nd0) by (eapply elem_unique; eauto). subst. congruence.
  - intros n' nd' H. apply Hp in H as [H Hne].
    destruct (Aom _ _ H) as (e' & E1 & E2). exists e'. split; [|done].
    rewrite lookup_delete_ne; [done|]. intros Heq. rewrite <-Heq, Hk in E1.
    injection E1 as <-. congruence.
  - intros k' e' H Hpk'. apply lookup_delete_Some in H as [Hne H].
    pose proof (Mwo' := Mwo _ _ Hk Hpk). specialize (Mwo _ _ H Hpk').
    destruct (uc_ttl c); [|done].
    destruct Mwo as (n' & nd' & E1 & E2 & E3). exists n', nd'. split; [done|]. split; [|done].
    apply Hw. split; [done|]. intros Heq.
    destruct Mwo' as (m0 & md0 & F1 & F2 & F3).
    rewrite Heq in F1. injection F1 as <-.
    assert (nd' = md0) by (eapply elem_unique; eauto). subst. congruence.
  - intros n' nd' H. apply Hw in H as [H Hne].
    destruct (Wom _ _ H) as (Httl & e' & E1 & E2). split; [done|]. exists e'. split; [|done].
    rewrite lookup_delete_ne; [done|]. intros Heq. rewrite <-Heq, Hk in E1.
    injection E1 as <-. congruence.
  - intros n' nd' H. apply Hp in H as [H _]. eauto.
  - intros n' nd' H. apply Hw in H as [H _]. eauto.
  - intros k' e' H. apply lookup_delete_Some in H as [Hne H]. eauto.
  - done.
  - intros k' e' -> H. apply lookup_delete_Some in H as [Hne H]. eauto.
Qed.

Lemma evict_one c pk s k e :
  WFs c pk s -> u_map s !! k = Some e -> Some k <> pk ->
  exists s1, unlink_entry (UModel.set_map s (delete k (u_map s))) e = Ok s1 /\
    WFs c pk s1 /\ shrinks s s1 /\ u_map s1 = delete k (u_map s) /\
    u_ec s1 = u_ec s /\ u_ws s1 = u_ws s /\
    (forall n, ue_ao e = Some n -> u_prob s1 = remove_id n (u_prob s)) /\
    map_count (u_map s) = map_count (u_map s1) + 1 /\
    map_weight (u_map s) = map_weight (u_map s1) + ue_weight e.
Proof.
  intros W Hk Hpk.
  destruct (ws_map_ao _ _ _ W _ _ Hk Hpk) as (n & nd & Hao & Hin & Hkey & Hh).
  pose proof (ws_map_wo _ _ _ W _ _ Hk Hpk) as Hwo.
  pose proof (wfs_remove _ _ _ _ _ _ W Hk Hpk Hao) as W1.
  eexists. split; [|split; [exact W1|]].
  - unfold unlink_entry. rewrite Hao. simpl_set. unfold deq_unlink.
    rewrite (elem_mem_id _ _ _ Hin). cbn [rbind].
    destruct (uc_ttl c).
    + destruct Hwo as (n2 & nd2 & Hwo & Hin2 & _). rewrite Hwo.
      rewrite (elem_mem_id _ _ _ Hin2). cbn [rbind]. reflexivity.
    + rewrite Hwo. cbn [rbind]. reflexivity.
  - simpl_set. split; [|split; [done|split; [done|split; [done|]]]].
    + repeat split; simpl_set; try done.
      * apply delete_subseteq.
      * apply remove_id_sublist.
      * destruct (ue_wo e); [apply remove_id_sublist|done].
    + split; [intros n' Hn'; congruence|]. split.
      * by eapply map_count_delete.
      * by eapply map_weight_delete.
Qed.


Notation BIG := 18446744069414584320 (only parsing).

Lemma wfs_weight_big c pk s :
  cfg_ok c -> WFs c pk s -> u_next s < 2 ^ 32 -> map_weight (u_map s) <= BIG.
Proof. intros Hc W Hn. pose proof (wfs_weight_bound c pk s Hc W Hn). lia. Qed.

Lemma sat_add64_big a b : a + b <= BIG -> sat_add64 a b = a + b.
Proof. intros H. unfold sat_add64, u64_max. lia. Qed.

Lemma WFs_set_counters c pk s a b : WFs c pk s -> WFs c pk (set_ws (set_ec s a) b).
Proof. intros []. constructor; simpl_set; done. Qed.

(** * The evicting loops *)
Definition loop_post (c : ucfg) (s : ustate) (cnt wt : N) (s' : ustate) (cnt' wt' : N) : Prop :=
  WFs c None s' /\ shrinks s s' /\ u_ec s' = u_ec s /\ u_ws s' = u_ws s /\
  map_count (u_map s') + cnt' = map_count (u_map s) + cnt /\
  map_weight (u_map s') + wt' = map_weight (u_map s) + wt.

Lemma loop_post_refl c s cnt wt : WFs c None s -> loop_post c s cnt wt s cnt wt.
Proof. intros W. split; [done|]. split; [apply shrinks_refl|]. repeat split. Qed.

Lemma loop_post_step c s s1 e cnt wt s' cnt' wt' :
  shrinks s s1 -> u_ec s1 = u_ec s -> u_ws s1 = u_ws s ->
  map_count (u_map s) = map_count (u_map s1) + 1 ->
  map_weight (u_map s) = map_weight (u_map s1) + ue_weight e ->
  loop_post c s1 (cnt + 1) (wt + ue_weight e) s' cnt' wt' ->
  loop_post c s cnt wt s' cnt' wt'.
Proof.
  intros Sh Hec Hws Hc Hw (W & Sh' & Hec' & Hws' & Hc' & Hw').
  split; [done|]. split; [by eapply shrinks_trans|]. repeat split; lia.
Qed.

Lemma remove_expired_wo_ok c fuel : forall s now cnt wt,
  WFs c None s -> map_weight (u_map s) + wt <= BIG ->
  exists s' cnt' wt', remove_expired_wo c fuel s now cnt wt = Ok (s', cnt', wt') /\
    loop_post c s cnt wt s' cnt' wt'.
Proof.
  induction fuel as [|fuel IH]; intros s now cnt wt W Hb; cbn [remove_expired_wo].
  { eexists _, _, _. split; [reflexivity|by apply loop_post_refl]. }
  destruct (u_wo s) as [|[nid nd] rest] eqn:Ewo.
  { eexists _, _, _. split; [reflexivity|by apply loop_post_refl]. }
  destruct (expired_at (uc_ttl c) (wn_ts nd) now).
  2:{ eexists _, _, _. split; [reflexivity|by apply loop_post_refl]. }
  assert (Hin : (nid, nd) ∈ u_wo s) by (rewrite Ewo; left).
  destruct (ws_wo_map _ _ _ W _ _ Hin) as (_ & e & He & _).
  rewrite He.
  destruct (evict_one _ _ _ _ _ W He ltac:(done)) as (s1 & E1 & W1 & Sh & Hm & Hec & Hws & _ & Hc1 & Hw1).
  rewrite E1. cbn [rbind].
  rewrite sat_add64_big by lia.
  destruct (IH s1 now (cnt + 1) (wt + ue_weight e) W1 ltac:(lia)) as (s' & cnt' & wt' & E & P).
  exists s', cnt', wt'. split; [exact E|]. eapply loop_post_step; eauto.
Qed.

Lemma remove_expired_ao_ok c fuel : forall s now cnt wt,
  WFs c None s -> map_weight (u_map s) + wt <= BIG ->
  exists s' cnt' wt', remove_expired_ao c fuel s now cnt wt = Ok (s', cnt', wt') /\
    loop_post c s cnt wt s' cnt' wt'.
Proof.
  induction fuel as [|fuel IH]; intros s now cnt wt W Hb; cbn [remove_expired_ao].
  { eexists _, _, _. split; [reflexivity|by apply loop_post_refl]. }
  destruct (u_prob s) as [|[nid nd] rest] eqn:Ep.
  { eexists _, _, _. split; [reflexivity|by apply loop_post_refl]. }
  destruct (expired_at (uc_tti c) (an_ts nd) now).
  2:{ eexists _, _, _. split; [reflexivity|by apply loop_post_refl]. }
  assert (Hin : (nid, nd) ∈ u_prob s) by (rewrite Ep; left).
  destruct (ws_ao_map _ _ _ W _ _ Hin) as (e & He & _).
  rewrite He.
  destruct (evict_one _ _ _ _ _ W He ltac:(done)) as (s1 & E1 & W1 & Sh & Hm & Hec & Hws & _ & Hc1 & Hw1).
  rewrite E1. cbn [rbind].
  rewrite sat_add64_big by lia.
  destruct (IH s1 now (cnt + 1) (wt + ue_weight e) W1 ltac:(lia)) as (s' & cnt' & wt' & E & P).
  exists s', cnt', wt'. split; [exact E|]. eapply loop_post_step; eauto.
Qed.

Lemma evict_lru_loop_ok c fuel : forall s te cnt wt,
  WFs c None s -> map_weight (u_map s) + wt <= BIG ->
  exists s' cnt' wt', evict_lru_loop fuel s te cnt wt = Ok (s', cnt', wt') /\
    loop_post c s cnt wt s' cnt' wt'.
Proof.
  induction fuel as [|fuel IH]; intros s te cnt wt W Hb; cbn [evict_lru_loop].
  { eexists _, _, _. split; [reflexivity|by apply loop_post_refl]. }
  destruct (te <=? wt).
  { eexists _, _, _. split; [reflexivity|by apply loop_post_refl]. }
  destruct (u_prob s) as [|[nid nd] rest] eqn:Ep.
  { eexists _, _, _. split; [reflexivity|by apply loop_post_refl]. }
  assert (Hin : (nid, nd) ∈ u_prob s) by (rewrite Ep; left).
  destruct (ws_ao_map _ _ _ W _ _ Hin) as (e & He & _).
  rewrite He.
  destruct (evict_one _ _ _ _ _ W He ltac:(done)) as (s1 & E1 & W1 & Sh & Hm & Hec & Hws & _ & Hc1 & Hw1).
  rewrite E1. cbn [rbind].
  rewrite sat_add64_big by lia.
  destruct (IH s1 te (cnt + 1) (wt + ue_weight e) W1 ltac:(lia)) as (s' & cnt' & wt' & E & P).
  exists s', cnt', wt'. split; [exact E|]. eapply loop_post_step; eauto.
Qed.

Lemma invalidate_keys_ok c : forall keys s cnt wt,
  WFs c None s -> map_weight (u_map s) + wt <= BIG ->
  exists s' cnt' wt', invalidate_keys s keys cnt wt = Ok (s', cnt', wt') /\
    loop_post c s cnt wt s' cnt' wt'.
Proof.
  induction keys as [|k keys IH]; intros s cnt wt W Hb; cbn [invalidate_keys].
  { eexists _, _, _. split; [reflexivity|by apply loop_post_refl]. }
  destruct (u_map s !! k) as [e|] eqn:He; [|by apply IH].
  destruct (evict_one _ _ _ _ _ W He ltac:(done)) as (s1 & E1 & W1 & Sh & Hm & Hec & Hws & _ & Hc1 & Hw1).
  rewrite E1. cbn [rbind].
  rewrite sat_add64_big by lia.
  destruct (IH s1 (cnt + 1) (wt + ue_weight e) W1 ltac:(lia)) as (s' & cnt' & wt' & E & P).
  exists s', cnt', wt'. split; [exact E|]. eapply loop_post_step; eauto.
Qed.

(** closing a loop: the caller subtracts what the loop reports *)
Lemma finish_counts c s s' cnt' wt' :
  WF c s -> loop_post c s 0 0 s' cnt' wt' ->
  exists ec, chk_sub (u_ec s') cnt' = Ok ec /\
    WF c (set_ws (set_ec s' ec) (sat_sub (u_ws s') wt')) /\
    shrinks s (set_ws (set_ec s' ec) (sat_sub (u_ws s') wt')).
Proof.
  intros W (W' & Sh & Hec & Hws & Hc & Hw).
  apply WF_WFs in W as (W & Wec & Wws).
  unfold chk_sub. destruct (N.leb_spec cnt' (u_ec s')) as [Hle|Hlt]; [|lia].
  eexists. split; [reflexivity|]. split.
  - apply WF_WFs. split; [by apply WFs_set_counters|]. simpl_set. unfold sat_sub. lia.
  - destruct Sh as (A1 & A2 & A3 & A4 & A5 & A6). repeat split; simpl_set; done.
Qed.

Lemma WF_small_big c s : cfg_ok c -> WF c s -> u_next s < 2 ^ 32 -> map_weight (u_map s) + 0 <= BIG.
Proof.
  intros Hc W Hn. apply WF_WFs in W as (W & _). pose proof (wfs_weight_big _ _ _ Hc W Hn). lia.
Qed.

Lemma evict_expired_ok c s now :
  cfg_ok c -> WF c s -> u_next s < 2 ^ 32 ->
  exists s', evict_expired c s now = Ok s' /\ WF c s' /\ shrinks s s'.
Proof.
  intros Hc W Hn. unfold evict_expired.
  assert (H1 : exists s1,
    match uc_ttl c with
    | Some _ => '(s', cnt, wt) <-r remove_expired_wo c batch_u s now 0 0;
                ec <-r chk_sub (u_ec s') cnt;
                Ok (set_ws (set_ec s' ec) (sat_sub (u_ws s') wt))
    | None => Ok s
    end = Ok s1 /\ WF c s1 /\ shrinks s s1).
  { destruct (uc_ttl c).
    - pose proof (WF_small_big _ _ Hc W Hn) as Hb.
      pose proof W as W0. apply WF_WFs in W0 as (W0 & _).
      destruct (remove_expired_wo_ok c batch_u s now 0 0 W0 Hb) as (s' & cnt' & wt' & E & P).
      rewrite E. cbn [rbind].
      destruct (finish_counts _ _ _ _ _ W P) as (ec & E2 & W2 & Sh2).
      rewrite E2. cbn [rbind]. eauto.
    - exists s. split; [done|]. split; [done|apply shrinks_refl]. }
  destruct H1 as (s1 & E1 & W1 & Sh1). rewrite E1. cbn [rbind].
  destruct (uc_tti c).
  - assert (Hn1 : u_next s1 < 2 ^ 32) by (destruct Sh1 as (_ & _ & _ & _ & _ & ->); done).
    pose proof (WF_small_big _ _ Hc W1 Hn1) as Hb.
    pose proof W1 as W0. apply WF_WFs in W0 as (W0 & _).
    destruct (remove_expired_ao_ok c batch_u s1 now 0 0 W0 Hb) as (s' & cnt' & wt' & E & P).
    rewrite E. cbn [rbind].
    destruct (finish_counts _ _ _ _ _ W1 P) as (ec & E2 & W2 & Sh2).
    rewrite E2. cbn [rbind]. eexists. split; [reflexivity|]. split; [done|by eapply shrinks_trans].
  - eauto.
Qed.

Lemma evict_lru_entries_ok c s :
  cfg_ok c -> WF c s -> u_next s < 2 ^ 32 ->
  exists s', evict_lru_entries c s = Ok s' /\ WF c s' /\ shrinks s s'.
Proof.
  intros Hc W Hn. unfold evict_lru_entries.
  pose proof (WF_small_big _ _ Hc W Hn) as Hb.
  pose proof W as W0. apply WF_WFs in W0 as (W0 & _).
  destruct (evict_lru_loop_ok c batch_u s (weights_to_evict c s) 0 0 W0 Hb) as (s' & cnt' & wt' & E & P).
  rewrite E. cbn [rbind].
  destruct (finish_counts _ _ _ _ _ W P) as (ec & E2 & W2 & Sh2).
  rewrite E2. cbn [rbind]. eauto.
Qed.

Lemma maintain_ok c s now :
  cfg_ok c -> WF c s -> u_next s < 2 ^ 32 ->
  exists s', maintain c s now = Ok (s', if has_expiry c then Some now else None) /\
    WF c s' /\ shrinks s s'.
Proof.
  intros Hc W Hn. unfold maintain, evict_expired_if_needed.
  destruct (has_expiry c).
  - destruct (evict_expired_ok c s now Hc W Hn) as (s1 & E1 & W1 & Sh1).
    rewrite E1. cbn [rbind].
    assert (Hn1 : u_next s1 < 2 ^ 32) by (destruct Sh1 as (_ & _ & _ & _ & _ & ->); done).
    destruct (evict_lru_entries_ok c s1 Hc W1 Hn1) as (s2 & E2 & W2 & Sh2).
    rewrite E2. cbn [rbind]. eexists. split; [reflexivity|]. split; [done|by eapply shrinks_trans].
  - cbn [rbind].
    destruct (evict_lru_entries_ok c s Hc W Hn) as (s2 & E2 & W2 & Sh2).
    rewrite E2. cbn [rbind]. eauto.
Qed.


Lemma WFs_set_ec c pk s a : WFs c pk s -> WFs c pk (set_ec s a).
Proof. intros []. constructor; simpl_set; done. Qed.

Lemma WFs_set_ws c pk s a : WFs c pk s -> WFs c pk (set_ws s a).
Proof. intros []. constructor; simpl_set; done. Qed.

(** * Reordering and touching nodes *)
Lemma WFs_equiv c pk s s' :
  u_map s' = u_map s -> u_next s' = u_next s -> u_sk s' = u_sk s ->
  NoDup (u_prob s').*1 -> NoDup (u_wo s').*1 ->
  (forall x, x ∈ u_prob s' <-> x ∈ u_prob s) -> (forall x, x ∈ u_wo s' <-> x ∈ u_wo s) ->
  WFs c pk s -> WFs c pk s'.
Proof.
  intros Hm Hn Hsk Nao' Nwo' Hp Hw [Nao Nwo Iao Iwo Mao Aom Mwo Wom Tao Two Wgt Sk Pend].
  constructor; rewrite ?Hm, ?Hn, ?Hsk; try done.
  - intros n nd H. apply Hp in H. eauto.
  - intros n nd H. apply Hw in H. eauto.
  - intros k e H Hpk. destruct (Mao _ _ H Hpk) as (n & nd & ? & ? & ?).
    exists n, nd. split; [done|]. split; [by apply Hp|done].
  - intros n nd H. apply Hp in H. eauto.
  - intros k e H Hpk. specialize (Mwo _ _ H Hpk). destruct (uc_ttl c) as [ttl|]; [|done].
    destruct Mwo as (n & nd & ? & ? & ?). exists n, nd. split; [done|]. split; [by apply Hw|done].
  - intros n nd H. apply Hw in H. eauto.
  - intros n nd H. apply Hp in H. eauto.
  - intros n nd H. apply Hw in H. eauto.
Qed.

Section upd.
  Context {A : Type}.
  Lemma elem_update_id_fwd n (f : A -> A) (l : list (N * A)) m a :
    (m, a) ∈ l -> exists b, (m, b) ∈ update_id n f l /\ (b = a \/ b = f a).
  Proof.
    induction l as [|[m' b'] l IH]; cbn [update_id].
    - intros H. by apply elem_of_nil in H.
    - intros H. destruct (N.eqb m' n).
      + apply elem_of_cons in H as [[= <- <-]|H].
        * exists (f a). split; [left|by right].
        * exists a. split; [by right|by left].
      + apply elem_of_cons in H as [[= <- <-]|H].
        * exists a. split; [left|by left].
        * destruct (IH H) as (b & Hb & Hor). exists b. split; [by right|done].
  Qed.
End upd.

Lemma wfs_touch_ao c pk s n t :
  WFs c pk s -> has_expiry c = true ->
  WFs c pk (set_prob s (update_id n (fun nd => mkAo (an_key nd) (an_hash nd) (Some t)) (u_prob s))).
Proof.
  intros [Nao Nwo Iao Iwo Mao Aom Mwo Wom Tao Two Wgt Sk Pend] Hex.
  set (f := fun nd => mkAo (an_key nd) (an_hash nd) (Some t)).
  assert (Hb : forall m b, (m, b) ∈ update_id n f (u_prob s) ->
            exists a, (m, a) ∈ u_prob s /\ (b = a \/ b = f a)).
  { intros m b H. apply elem_update_id in H as [[? ?]|[-> (a & ? & ->)]]; [| |done]; eauto. }
  constructor; simpl_set; try done.
  - by rewrite update_id_fst.
  - intros m b H. apply Hb in H as (a & H & _). eauto.
  - intros k e H Hpk. destruct (Mao _ _ H Hpk) as (m & a & E1 & E2 & E3 & E4).
    destruct (elem_update_id_fwd n f _ _ _ E2) as (b & Hb1 & Hb2).
    exists m, b. split; [done|]. split; [done|]. destruct Hb2 as [->| ->]; done.
  - intros m b H. apply Hb in H as (a & H & Hor).
    destruct (Aom _ _ H) as (e & E1 & E2). exists e. destruct Hor as [->| ->]; done.
  - intros m b H. apply Hb in H as (a & H & Hor). destruct Hor as [->| ->]; [eauto|].
    cbn. split; [done|]. intros _. by eexists.
Qed.

Lemma wfs_touch_wo c pk s n t :
  WFs c pk s ->
  WFs c pk (set_wo s (update_id n (fun nd => mkWo (wn_key nd) (Some t)) (u_wo s))).
Proof.
  intros [Nao Nwo Iao Iwo Mao Aom Mwo Wom Tao Two Wgt Sk Pend].
  set (f := fun nd => mkWo (wn_key nd) (Some t)).
  assert (Hb : forall m b, (m, b) ∈ update_id n f (u_wo s) ->
            exists a, (m, a) ∈ u_wo s /\ (b = a \/ b = f a)).
  { intros m b H. apply elem_update_id in H as [[? ?]|[-> (a & ? & ->)]]; [| |done]; eauto. }
  constructor; simpl_set; try done.
  - by rewrite update_id_fst.
  - intros m b H. apply Hb in H as (a & H & _). eauto.
  - intros k e H Hpk. specialize (Mwo _ _ H Hpk). destruct (uc_ttl c) as [ttl|]; [|done].
    destruct Mwo as (m & a & E1 & E2 & E3).
    destruct (elem_update_id_fwd n f _ _ _ E2) as (b & Hb1 & Hb2).
    exists m, b. split; [done|]. split; [done|]. destruct Hb2 as [->| ->]; done.
  - intros m b H. apply Hb in H as (a & H & Hor).
    destruct (Wom _ _ H) as (Httl & e & E1 & E2). split; [done|].
    exists e. destruct Hor as [->| ->]; done.
  - intros m b H. apply Hb in H as (a & H & Hor). destruct Hor as [->| ->]; [eauto|].
    cbn. by eexists.
Qed.

(** * The per-entry primitives *)
Lemma set_last_accessed_ok c pk s k e t :
  WFs c pk s -> u_map s !! k = Some e -> Some k <> pk -> has_expiry c = true ->
  exists p, set_last_accessed s e t = Ok (set_prob s p) /\ WFs c pk (set_prob s p).
Proof.
  intros W H Hpk Hex. destruct (ws_map_ao _ _ _ W _ _ H Hpk) as (n & nd & Hao & Hin & _).
  unfold set_last_accessed. rewrite Hao, (elem_mem_id _ _ _ Hin).
  eexists. split; [reflexivity|]. by apply wfs_touch_ao.
Qed.

Lemma set_last_modified_ok c pk s k e t :
  WFs c pk s -> u_map s !! k = Some e -> Some k <> pk ->
  exists w, set_last_modified s e t = Ok (set_wo s w) /\ WFs c pk (set_wo s w).
Proof.
  intros W H Hpk. pose proof (ws_map_wo _ _ _ W _ _ H Hpk) as Hwo.
  unfold set_last_modified. destruct (uc_ttl c) as [ttl|].
  - destruct Hwo as (n & nd & Hwo & Hin & _). rewrite Hwo, (elem_mem_id _ _ _ Hin).
    eexists. split; [reflexivity|]. by apply wfs_touch_wo.
  - rewrite Hwo. exists (u_wo s). by destruct s.
Qed.

Lemma move_to_back_ao_ok c pk s k e :
  WFs c pk s -> u_map s !! k = Some e -> Some k <> pk ->
  exists p, move_to_back_ao s e = Ok (set_prob s p) /\ WFs c pk (set_prob s p) /\ p ≡ₚ u_prob s.
Proof.
  intros W H Hpk. destruct (ws_map_ao _ _ _ W _ _ H Hpk) as (n & nd & Hao & Hin & _).
  unfold move_to_back_ao, deq_move_to_back. rewrite Hao.
  pose proof (elem_find_id _ _ _ (ws_nodup_ao _ _ _ W) Hin) as Hf. rewrite Hf. cbn [rbind].
  pose proof (move_back_perm _ _ _ Hf) as Hp.
  eexists. split; [reflexivity|]. split; [|done].
  eapply WFs_equiv; [..|exact W]; simpl_set; try done.
  - rewrite Hp. apply W.
  - apply W.
  - intros x. by rewrite Hp.
Qed.

Lemma move_to_back_wo_ok c pk s k e :
  WFs c pk s -> u_map s !! k = Some e -> Some k <> pk -> uc_ttl c <> None ->
  exists w, move_to_back_wo s e = Ok (set_wo s w) /\ WFs c pk (set_wo s w) /\ w ≡ₚ u_wo s.
Proof.
  intros W H Hpk Httl. pose proof (ws_map_wo _ _ _ W _ _ H Hpk) as Hwo.
  destruct (uc_ttl c) as [ttl|]; [|done].
  destruct Hwo as (n & nd & Hwo & Hin & _).
  unfold move_to_back_wo, deq_move_to_back. rewrite Hwo.
  pose proof (elem_find_id _ _ _ (ws_nodup_wo _ _ _ W) Hin) as Hf. rewrite Hf. cbn [rbind].
  pose proof (move_back_perm _ _ _ Hf) as Hp.
  eexists. split; [reflexivity|]. split; [|done].
  eapply WFs_equiv; [..|exact W]; simpl_set; try done.
  - apply W.
  - rewrite Hp. apply W.
  - intros x. by rewrite Hp.
Qed.

Lemma entry_expired_ok c pk s k e now :
  WFs c pk s -> u_map s !! k = Some e -> Some k <> pk ->
  exists b, entry_expired c s e now = Ok b.
Proof.
  intros W H Hpk. unfold entry_expired, entry_lm, entry_la.
  destruct (ws_map_ao _ _ _ W _ _ H Hpk) as (n & nd & Hao & Hin & _).
  pose proof (ws_map_wo _ _ _ W _ _ H Hpk) as Hwo.
  rewrite Hao, (elem_find_id _ _ _ (ws_nodup_ao _ _ _ W) Hin).
  destruct (uc_ttl c) as [ttl|].
  - destruct Hwo as (n2 & nd2 & Hwo & Hin2 & _).
    rewrite Hwo, (elem_find_id _ _ _ (ws_nodup_wo _ _ _ W) Hin2). cbn [rbind].
    destruct (expired_at _ _ _); cbn [rbind]; eauto.
  - rewrite Hwo. cbn [rbind]. destruct (expired_at _ _ _); cbn [rbind]; eauto.
Qed.


(** * push_candidate *)
Lemma push_candidate_eq c s k h w ts e :
  u_map s !! k = Some e ->
  push_candidate c s k h w ts =
  Ok (mkU (<[k := mkUE (ue_val e) (ue_weight e) (Some (u_next s))
                   (match uc_ttl c with Some _ => Some (u_next s + 1) | None => None end)]> (u_map s))
          (u_prob s ++ [(u_next s, mkAo k h ts)])
          (u_wo s ++ match uc_ttl c with Some _ => [(u_next s + 1, mkWo k ts)] | None => [] end)
          (u_ec s) (u_ws s) (u_sk s) (u_skon s)
          (match uc_ttl c with Some _ => u_next s + 1 + 1 | None => u_next s + 1 end)).
Proof.
  intros H. unfold push_candidate. rewrite H. destruct (uc_ttl c) as [ttl|].
  - reflexivity.
  - rewrite app_nil_r. reflexivity.
Qed.

Lemma push_candidate_ok c s k w ts e :
  WFs c (Some k) s -> u_map s !! k = Some e -> (is_Some ts <-> has_expiry c = true) ->
  exists s', push_candidate c s k (uc_hash c k) w ts = Ok s' /\ WFs c None s' /\
    u_ec s' = u_ec s /\ u_ws s' = u_ws s /\ u_sk s' = u_sk s /\ u_skon s' = u_skon s /\
    u_next s <= u_next s' <= u_next s + 2 /\
    map_count (u_map s') = map_count (u_map s) /\ map_weight (u_map s') = map_weight (u_map s).
Proof.
  intros W He Hts. rewrite (push_candidate_eq _ _ _ _ _ _ _ He).
  eexists. split; [reflexivity|]. simpl_set.
  split; [|split; [done|split; [done|split; [done|split; [done|split; [|split]]]]]].
  2:{ destruct (uc_ttl c); lia. }
  2:{ by eapply map_count_insert_Some. }
  2:{ pose proof (map_weight_insert_Some (u_map s) k e
        (mkUE (ue_val e) (ue_weight e) (Some (u_next s))
           (match uc_ttl c with Some _ => Some (u_next s + 1) | None => None end)) He) as Hw.
      cbn [ue_weight] in Hw. lia. }
  destruct W as [Nao Nwo Iao Iwo Mao Aom Mwo Wom Tao Two Wgt Sk Pend].
  destruct (Pend _ _ eq_refl He) as [Pao Pwo].
  set (n := u_next s) in *.
  assert (Hwx : forall m b, (m, b) ∈ u_wo s ++ match uc_ttl c with Some _ => [(n + 1, mkWo k ts)] | None => [] end
            <-> (m, b) ∈ u_wo s \/ (uc_ttl c <> None /\ m = n + 1 /\ b = mkWo k ts)).
  { intros m b. rewrite elem_of_app. destruct (uc_ttl c) as [ttl|].
    - rewrite elem_of_list_singleton. split; (intros [?|?]; [by left|right]).
      + by injection H as -> ->.
      + destruct H as (_ & -> & ->). done.
    - split; (intros [?|?]; [by left|]).
      + by apply elem_of_nil in H.
      + by destruct H as [? _]. }
  assert (Hpx : forall m b, (m, b) ∈ u_prob s ++ [(n, mkAo k (uc_hash c k) ts)]
            <-> (m, b) ∈ u_prob s \/ (m = n /\ b = mkAo k (uc_hash c k) ts)).
  { intros m b. rewrite elem_of_app, elem_of_list_singleton. split; (intros [?|?]; [by left|right]).
    - by injection H as -> ->.
    - by destruct H as [-> ->]. }
  assert (Hkey : forall m b, (m, b) ∈ u_prob s -> an_key b <> k).
  { intros m b H Hk. destruct (Aom _ _ H) as (e' & E1 & E2). rewrite Hk, He in E1. congruence. }
  assert (Hkeyw : forall m b, (m, b) ∈ u_wo s -> wn_key b <> k).
  { intros m b H Hk. destruct (Wom _ _ H) as (_ & e' & E1 & E2). rewrite Hk, He in E1. congruence. }
  constructor; cbn [u_map u_prob u_wo u_sk u_next].
  - apply nodup_snoc; [done|]. intros H. apply elem_of_list_fmap in H as ([m b] & Hm & H).
    cbn in Hm. subst m. specialize (Iao _ _ H). lia.
  - destruct (uc_ttl c) as [ttl|]; [|by rewrite app_nil_r].
    apply nodup_snoc; [done|]. intros H. apply elem_of_list_fmap in H as ([m b] & Hm & H).
    cbn in Hm. subst m. specialize (Iwo _ _ H). lia.
  - intros m b H. apply Hpx in H as [H|[-> _]].
    + specialize (Iao _ _ H). destruct (uc_ttl c); lia.
    + destruct (uc_ttl c); lia.
  - intros m b H. apply Hwx in H as [H|(Httl & -> & _)].
    + specialize (Iwo _ _ H). destruct (uc_ttl c); lia.
    + destruct (uc_ttl c); [lia|done].
  - intros k' e' H _. destruct (decide (k' = k)) as [->|Hne].
    + rewrite lookup_insert in H. injection H as <-. cbn [ue_ao].
      exists n, (mkAo k (uc_hash c k) ts). split; [reflexivity|]. split; [apply Hpx; right; split; reflexivity|done].
    + rewrite lookup_insert_ne in H by done.
      destruct (Mao _ _ H) as (m & b & E1 & E2 & E3); [congruence|].
      exists m, b. split; [done|]. split; [apply Hpx; by left|done].
  - intros m b H. apply Hpx in H as [H|[-> ->]].
    + destruct (Aom _ _ H) as (e' & E1 & E2). exists e'. split; [|done].
      rewrite lookup_insert_ne; [done|]. intros Heq. by eapply Hkey.
    + cbn [an_key]. rewrite lookup_insert. eexists. split; [reflexivity|done].
  - intros k' e' H _. destruct (decide (k' = k)) as [->|Hne].
    + rewrite lookup_insert in H. injection H as <-. cbn [ue_wo].
      destruct (uc_ttl c) as [ttl|] eqn:Ettl; [|done].
      exists (n + 1), (mkWo k ts). split; [reflexivity|]. split; [|reflexivity].
      rewrite elem_of_app, elem_of_list_singleton. by right.
    + rewrite lookup_insert_ne in H by done.
      assert (Hpk : Some k' <> Some k) by congruence.
      specialize (Mwo _ _ H Hpk). destruct (uc_ttl c) as [ttl|]; [|done].
      destruct Mwo as (m & b & E1 & E2 & E3). exists m, b. split; [done|]. split; [|done].
      rewrite elem_of_app. by left.
  - intros m b H. apply Hwx in H as [H|(Httl & -> & ->)].
    + destruct (Wom _ _ H) as (Httl & e' & E1 & E2). split; [done|]. exists e'. split; [|done].
      rewrite lookup_insert_ne; [done|]. intros Heq. by eapply Hkeyw.
    + split; [done|]. cbn [wn_key]. rewrite lookup_insert. eexists. split; [reflexivity|].
      cbn [ue_wo]. destruct (uc_ttl c); done.
  - intros m b H. apply Hpx in H as [H|[-> ->]]; [eauto|done].
  - intros m b H. apply Hwx in H as [H|(Httl & -> & ->)]; [eauto|].
    cbn [wn_ts]. apply Hts. unfold has_expiry. destruct (uc_ttl c); done.
  - intros k' e' H. destruct (decide (k' = k)) as [->|Hne].
    + rewrite lookup_insert in H. injection H as <-. cbn [ue_weight ue_val]. eauto.
    + rewrite lookup_insert_ne in H by done. eauto.
  - done.
  - intros k' e' Hk'. discriminate.
Qed.

(** * Dropping the pending entry again (rejected candidate) *)
Lemma wfs_drop_pending c s k :
  WFs c (Some k) s -> WFs c None (UModel.set_map s (delete k (u_map s))).
Proof.
  intros [Nao Nwo Iao Iwo Mao Aom Mwo Wom Tao Two Wgt Sk Pend].
  constructor; simpl_set; try done.
  - intros k' e' H _. apply lookup_delete_Some in H as [Hne H]. apply (Mao _ _ H). congruence.
  - intros m b H. destruct (Aom _ _ H) as (e' & E1 & E2). exists e'. split; [|done].
    rewrite lookup_delete_ne; [done|]. intros Heq. rewrite <-Heq in E1. destruct (Pend _ _ eq_refl E1). congruence.
  - intros k' e' H _. apply lookup_delete_Some in H as [Hne H]. apply (Mwo _ _ H). congruence.
  - intros m b H. destruct (Wom _ _ H) as (Httl & e' & E1 & E2). split; [done|].
    exists e'. split; [|done].
    rewrite lookup_delete_ne; [done|]. intros Heq. rewrite <-Heq in E1. destruct (Pend _ _ eq_refl E1). congruence.
  - intros k' e' H. apply lookup_delete_Some in H as [Hne H]. eauto.
Qed.

(** * Admission: choosing the victims *)
Fixpoint vweight (m : gmap N uentry) (l : list (N * aonode)) : N :=
  match l with
  | [] => 0
  | (_, nd) :: r => match m !! an_key nd with Some e => ue_weight e | None => 0 end + vweight m r
  end.

Lemma admit_loop_ok c s : forall l cw cf vw vf acc,
  cfg_ok c -> cw < two32 -> cf <= 15 ->
  (forall k e, u_map s !! k = Some e -> ue_weight e = weigh c k (ue_val e)) ->
  (forall n nd, (n, nd) ∈ l -> exists e, u_map s !! an_key nd = Some e) ->
  exists pre post vw' vf', l = pre ++ post /\
    admit_loop c s l cw cf vw vf acc = Ok (acc ++ pre.*1, vw', vf') /\
    vw' = vw + vweight (u_map s) pre.
Proof.
  induction l as [|[nid nd] l IH]; intros cw cf vw vf acc Hc Hcw Hcf Hwt Hl.
  - exists [], [], vw, vf. split; [done|]. rewrite app_nil_r. cbn [vweight admit_loop].
    split; [|lia]. destruct (cw <=? vw); [done|]. destruct (cf <? vf); done.
  - cbn [admit_loop].
    destruct (N.leb_spec cw vw) as [Hle|Hlt].
    { exists [], ((nid, nd) :: l), vw, vf. rewrite app_nil_r. cbn [vweight]. split; [done|]. split; [done|lia]. }
    destruct (N.ltb_spec cf vf) as [Hlt2|Hle2].
    { exists [], ((nid, nd) :: l), vw, vf. rewrite app_nil_r. cbn [vweight]. split; [done|]. split; [done|lia]. }
    destruct (Hl nid nd ltac:(left)) as (e & He). rewrite He.
    pose proof (weigh_lt c (an_key nd) (ue_val e) Hc) as Hw.
    pose proof (frequency_le_15 (u_sk s) (an_hash nd)) as Hf.
    unfold chk_add64 at 1. unfold two32 in *.
    destruct (N.ltb_spec (vw + weigh c (an_key nd) (ue_val e)) two64) as [_|Hbad];
      [|unfold two64 in Hbad; lia].
    cbn [rbind]. unfold chk_add32 at 1.
    destruct (N.ltb_spec (vf + frequency (u_sk s) (an_hash nd)) two32) as [_|Hbad];
      [|unfold two32 in Hbad; lia].
    cbn [rbind].
    destruct (IH cw cf (vw + weigh c (an_key nd) (ue_val e)) (vf + frequency (u_sk s) (an_hash nd))
                (acc ++ [nid]) Hc ltac:(unfold two32; lia) Hcf Hwt) as (pre & post & vw' & vf' & E1 & E2 & E3).
    { intros n' nd' H. apply (Hl n' nd'). by right. }
    exists ((nid, nd) :: pre), post, vw', vf'. split; [by rewrite E1|]. split.
    + rewrite E2. rewrite fmap_cons. cbn [fst]. by rewrite <-app_assoc.
    + cbn [vweight]. rewrite He, (Hwt _ _ He). lia.
Qed.

Lemma vweight_delete m k0 l :
  (forall n nd, (n, nd) ∈ l -> an_key nd <> k0) -> vweight (delete k0 m) l = vweight m l.
Proof.
  induction l as [|[n nd] l IH]; intros H; cbn [vweight]; [done|].
  rewrite lookup_delete_ne by (intros Heq; eapply (H n nd); [left|done]).
  rewrite IH; [done|]. intros n' nd' H'. apply (H n' nd'). by right.
Qed.

Lemma remove_victims_ok c k : forall pre s rest,
  WFs c (Some k) s -> u_prob s = pre ++ rest -> is_Some (u_map s !! k) ->
  u_ec s + 1 = map_count (u_map s) ->
  exists s', remove_victims s pre.*1 = Ok s' /\ WFs c (Some k) s' /\
    u_ec s' + 1 = map_count (u_map s') /\ u_ws s' = u_ws s /\
    map_weight (u_map s') + vweight (u_map s) pre = map_weight (u_map s) /\
    u_map s' !! k = u_map s !! k /\ u_next s' = u_next s /\
    u_sk s' = u_sk s /\ u_skon s' = u_skon s.
Proof.
  induction pre as [|[nid nd] pre IH]; intros s rest W Hp Hk Hec.
  - exists s. cbn [vweight]. do 4 (split; [done|]). split; [lia|done].
  - rewrite fmap_cons. cbn [fst remove_victims].
    assert (Hin : (nid, nd) ∈ u_prob s) by (rewrite Hp; left).
    rewrite (elem_find_id _ _ _ (ws_nodup_ao _ _ _ W) Hin).
    destruct (ws_ao_map _ _ _ W _ _ Hin) as (e & He & Hao). rewrite He.
    assert (Hnk : an_key nd <> k).
    { intros Heq. rewrite Heq in He. destruct (ws_pend _ _ _ W _ _ eq_refl He). congruence. }
    destruct (evict_one _ _ _ _ _ W He ltac:(congruence))
      as (s1 & E1 & W1 & Sh & Hm & Hec1 & Hws1 & Hpr & Hc1 & Hw1).
    rewrite E1. cbn [rbind].
    assert (Hk1 : u_map s1 !! k = u_map s !! k) by (rewrite Hm; by apply lookup_delete_ne).
    assert (1 <= map_count (u_map s1)).
    { destruct Hk as [ek Hk]. rewrite <-Hk1 in Hk. rewrite (map_count_delete _ _ _ Hk). lia. }
    unfold chk_sub. destruct (N.leb_spec 1 (u_ec s1)) as [_|Hbad]; [|lia]. cbn [rbind].
    specialize (Hpr _ Hao). rewrite Hp in Hpr. cbn [app] in Hpr. rewrite remove_id_head in Hpr.
    destruct (IH (set_ec s1 (u_ec s1 - 1)) rest) as (s' & E & W' & Hec' & Hws' & Hwt' & Hk' & Hn' & Hsk' & Hskon').
    + by apply WFs_set_ec.
    + done.
    + simpl_set. by rewrite Hk1.
    + simpl_set. lia.
    + simpl_set. exists s'. split; [exact E|]. split; [done|]. split; [done|].
      destruct Sh as (_ & _ & _ & Sk1 & Skon1 & Nx1).
      split; [congruence|]. split; [|split; [congruence|split; [congruence|split; congruence]]].
      cbn [vweight]. rewrite He.
      assert (Hvw : vweight (u_map s1) pre = vweight (u_map s) pre).
      { rewrite Hm. apply vweight_delete. intros n' nd' H' Heq.
        assert (Hin' : (n', nd') ∈ u_prob s) by (rewrite Hp; right; apply elem_of_app; by left).
        destruct (ws_ao_map _ _ _ W _ _ Hin') as (e' & He' & Hao').
        rewrite Heq, He in He'. injection He' as <-. rewrite Hao in Hao'. injection Hao' as <-.
        pose proof (ws_nodup_ao _ _ _ W) as Hnd. rewrite Hp in Hnd.
        change (((nid, nd) :: pre) ++ rest) with ((nid, nd) :: (pre ++ rest)) in Hnd.
        rewrite fmap_cons in Hnd. cbn [fst] in Hnd. apply NoDup_cons in Hnd as [Hnotin _].
        apply Hnotin. rewrite fmap_app. apply elem_of_app. left. by eapply elem_fst. }
      rewrite Hvw in Hwt'. lia.
Qed.


(** * The full invariant *)
Definition WF' (c : ucfg) (s : ustate) : Prop :=
  WF c s /\ (u_skon s = false -> u_sk s = sk_empty).

Lemma WF'_WF c s : WF' c s -> WF c s.
Proof. by intros [? _]. Qed.

Lemma WF'_sk_off c s : WF' c s -> u_skon s = false -> u_sk s = sk_empty.
Proof. by intros [_ ?]. Qed.

Definition same_core (s s' : ustate) : Prop :=
  u_map s' = u_map s /\ u_ec s' = u_ec s /\ u_ws s' = u_ws s /\
  u_sk s' = u_sk s /\ u_skon s' = u_skon s /\ u_next s' = u_next s.

Lemma same_core_refl s : same_core s s.
Proof. by repeat split. Qed.

Lemma same_core_trans s1 s2 s3 : same_core s1 s2 -> same_core s2 s3 -> same_core s1 s3.
Proof.
  intros (A1 & A2 & A3 & A4 & A5 & A6) (B1 & B2 & B3 & B4 & B5 & B6).
  repeat split; congruence.
Qed.

Lemma same_core_set_prob s p : same_core s (set_prob s p).
Proof. by repeat split. Qed.

Lemma same_core_set_wo s w : same_core s (set_wo s w).
Proof. by repeat split. Qed.

Definition sk_ins_frame (s s' : ustate) : Prop :=
  (u_sk s' = u_sk s /\ u_skon s' = u_skon s) \/
  (u_skon s = false /\ u_skon s' = true /\ exists cap, u_sk s' = ensure_capacity (u_sk s) cap).

Lemma lookup_weight_le (m : gmap N uentry) k e : m !! k = Some e -> ue_weight e <= map_weight m.
Proof. intros H. rewrite (map_weight_delete _ _ _ H). lia. Qed.

Lemma maybe_enable_ok c s :
  WF' c s ->
  WF' c (maybe_enable_sketch c s) /\ u_next (maybe_enable_sketch c s) = u_next s /\
  sk_load (maybe_enable_sketch c s) <= sk_load s /\ sk_ins_frame s (maybe_enable_sketch c s).
Proof.
  intros [W Hoff]. unfold maybe_enable_sketch, should_enable_sketch.
  assert (Hsame : WF' c s /\ u_next s = u_next s /\ sk_load s <= sk_load s /\ sk_ins_frame s s).
  { split; [by split|]. split; [done|]. split; [lia|]. by left. }
  destruct (u_skon s) eqn:Eon; [done|].
  destruct (uc_cap c) as [max_cap|] eqn:Ecap; [|done].
  destruct (max_cap / 2 <=? u_ws s); [|done].
  unfold enable_sketch. rewrite Ecap.
  set (cap := sketch_capacity _).
  specialize (Hoff eq_refl).
  destruct (ensure_capacity_wf_fresh (u_sk s) cap) as [Hwf Hload].
  { apply W. } { by rewrite Hoff. } { by rewrite Hoff. }
  split; [split|split; [done|split]].
  - destruct W. constructor; simpl_set; done.
  - simpl_set. done.
  - unfold sk_load. simpl_set. done.
  - right. simpl_set. split; [done|]. split; [done|]. by exists cap.
Qed.

(** * insert: a new key *)
Lemma wfs_add_pending c s k v :
  WFs c None s -> u_map s !! k = None ->
  WFs c (Some k) (UModel.set_map s (<[k := mkUE v (weigh c k v) None None]> (u_map s))).
Proof.
  intros [Nao Nwo Iao Iwo Mao Aom Mwo Wom Tao Two Wgt Sk Pend] Hk.
  constructor; simpl_set; try done.
  - intros k' e' H Hpk. rewrite lookup_insert_ne in H by congruence. by apply (Mao _ _ H).
  - intros m b H. destruct (Aom _ _ H) as (e' & E1 & E2). exists e'. split; [|done].
    rewrite lookup_insert_ne; [done|]. intros Heq. rewrite <-Heq in E1. congruence.
  - intros k' e' H Hpk. rewrite lookup_insert_ne in H by congruence. by apply (Mwo _ _ H).
  - intros m b H. destruct (Wom _ _ H) as (Httl & e' & E1 & E2). split; [done|].
    exists e'. split; [|done].
    rewrite lookup_insert_ne; [done|]. intros Heq. rewrite <-Heq in E1. congruence.
  - intros k' e' H. destruct (decide (k' = k)) as [->|Hne].
    + rewrite lookup_insert in H. by injection H as <-.
    + rewrite lookup_insert_ne in H by done. eauto.
  - intros k' e' [= <-] H. rewrite lookup_insert in H. by injection H as <-.
Qed.

Lemma insert_reject_ok c s k e :
  WFs c (Some k) s -> u_map s !! k = Some e ->
  u_ec s + 1 = map_count (u_map s) -> u_ws s + ue_weight e = map_weight (u_map s) ->
  (u_skon s = false -> u_sk s = sk_empty) ->
  WF' c (UModel.set_map s (delete k (u_map s))).
Proof.
  intros W He Hec Hws Hoff. split; [|done].
  apply WF_WFs. split; [by apply wfs_drop_pending|]. simpl_set.
  rewrite (map_count_delete _ _ _ He) in Hec. rewrite (map_weight_delete _ _ _ He) in Hws. lia.
Qed.

Lemma insert_push_ok c s k w ts e ws' :
  cfg_ok c -> WFs c (Some k) s -> u_map s !! k = Some e ->
  u_ec s + 1 = map_count (u_map s) -> ws' = map_weight (u_map s) ->
  u_next s < 2 ^ 32 -> (is_Some ts <-> has_expiry c = true) ->
  (u_skon s = false -> u_sk s = sk_empty) ->
  exists s1, push_candidate c s k (uc_hash c k) w ts = Ok s1 /\
    exists ec, chk_add64 (u_ec s1) 1 = Ok ec /\
    WF' c (set_ws (set_ec s1 ec) ws') /\
    u_ws s1 = u_ws s /\ u_sk s1 = u_sk s /\ u_skon s1 = u_skon s /\
    u_next s <= u_next s1 <= u_next s + 2.
Proof.
  intros Hc W He Hec Hws Hn Hts Hoff.
  destruct (push_candidate_ok _ _ _ w _ _ W He Hts)
    as (s1 & E1 & W1 & Hec1 & Hws1 & Hsk1 & Hskon1 & Hn1 & Hc1 & Hw1).
  exists s1. split; [done|].
  pose proof (wfs_count_bound _ _ _ W) as Hcb. rewrite pow2_32 in Hn.
  unfold chk_add64. destruct (N.ltb_spec (u_ec s1 + 1) two64) as [_|Hbad]; [|unfold two64 in Hbad; lia].
  eexists. split; [reflexivity|]. split; [|done].
  split.
  - apply WF_WFs. split; [by apply WFs_set_counters|]. simpl_set. split; [lia|congruence].
  - simpl_set. rewrite Hskon1, Hsk1. done.
Qed.

Lemma handle_insert_ok c s k v w ts :
  cfg_ok c -> WFs c (Some k) s -> u_map s !! k = Some (mkUE v w None None) ->
  u_ec s + 1 = map_count (u_map s) -> u_ws s + w = map_weight (u_map s) ->
  u_next s < 2 ^ 32 -> (is_Some ts <-> has_expiry c = true) ->
  (u_skon s = false -> u_sk s = sk_empty) ->
  exists s', handle_insert c s k (uc_hash c k) w ts = Ok s' /\ WF' c s' /\
    u_next s <= u_next s' <= u_next s + 2 /\ sk_load s' <= sk_load s /\ sk_ins_frame s s'.
Proof.
  intros Hc W He Hec Hws Hn Hts Hoff.
  pose proof (wfs_weight_lt _ _ _ _ _ Hc W He) as Hw32. cbn [ue_weight] in Hw32.
  pose proof (wfs_weight_big _ _ _ Hc W Hn) as Hbig.
  (* the two simple outcomes *)
  assert (Hfree : exists s',
    (s1 <-r push_candidate c s k (uc_hash c k) w ts;
     ec <-r chk_add64 (u_ec s1) 1;
     Ok (maybe_enable_sketch c (set_ws (set_ec s1 ec) (sat_add64 (u_ws s1) w)))) = Ok s' /\
    WF' c s' /\ u_next s <= u_next s' <= u_next s + 2 /\ sk_load s' <= sk_load s /\ sk_ins_frame s s').
  { destruct (insert_push_ok c s k w ts _ (u_ws s + w) Hc W He Hec Hws Hn Hts Hoff)
      as (s1 & E1 & ec & E2 & W1 & Hws1 & Hsk1 & Hskon1 & Hn1).
    rewrite E1. cbn [rbind]. rewrite E2. cbn [rbind]. rewrite Hws1.
    rewrite sat_add64_big by lia.
    destruct (maybe_enable_ok _ _ W1) as (W2 & Hn2 & Hl2 & Hf2).
    eexists. split; [reflexivity|]. split; [done|]. rewrite Hn2. simpl_set. split; [done|].
    split.
    - etrans; [exact Hl2|]. unfold sk_load. simpl_set. rewrite Hsk1. lia.
    - destruct Hf2 as [[F1 F2]|(F1 & F2 & cap & F3)]; simpl_set.
      + left. split; congruence.
      + right. split; [congruence|]. split; [done|]. exists cap. congruence. }
  assert (Hrej : WF' c (UModel.set_map s (delete k (u_map s))) /\
     u_next s <= u_next (UModel.set_map s (delete k (u_map s))) <= u_next s + 2 /\
     sk_load (UModel.set_map s (delete k (u_map s))) <= sk_load s /\
     sk_ins_frame s (UModel.set_map s (delete k (u_map s)))).
  { split; [by eapply insert_reject_ok|]. simpl_set. split; [lia|]. split; [unfold sk_load; simpl_set; lia|].
    left. done. }
  unfold handle_insert, has_enough_capacity.
  destruct (uc_cap c) as [limit|] eqn:Ecap; [|cbn [rbind]; exact Hfree].
  unfold chk_add64 at 1.
  destruct (N.ltb_spec (u_ws s + w) two64) as [_|Hbad]; [|unfold two64 in Hbad; lia].
  cbn [rbind]. destruct (u_ws s + w <=? limit); [exact Hfree|].
  destruct (limit <? w); [eexists; split; [reflexivity|exact Hrej]|].
  destruct (admit_loop_ok c s (u_prob s) w (frequency (u_sk s) (uc_hash c k)) 0 0 [] Hc Hw32
              (frequency_le_15 _ _) (ws_weight _ _ _ W))
    as (pre & post & vw' & vf' & Hp & E & Hvw).
  { intros n nd H. destruct (ws_ao_map _ _ _ W _ _ H) as (e' & ? & _). eauto. }
  rewrite E. cbn [rbind app].
  destruct ((w <=? vw') && (vf' <? frequency (u_sk s) (uc_hash c k)));
    [|eexists; split; [reflexivity|exact Hrej]].
  destruct (remove_victims_ok c k pre s post W Hp ltac:(by eexists) Hec)
    as (s1 & E1 & W1 & Hec1 & Hws1 & Hwt1 & Hk1 & Hn1 & Hsk1 & Hskon1).
  rewrite E1. cbn [rbind].
  rewrite He in Hk1.
  pose proof (lookup_weight_le _ _ _ Hk1) as Hle. cbn [ue_weight] in Hle.
  assert (Hn1' : u_next s1 < 2 ^ 32) by (by rewrite Hn1).
  pose proof (wfs_weight_big _ _ _ Hc W1 Hn1') as Hbig1.
  destruct (insert_push_ok c s1 k w ts _ (map_weight (u_map s1)) Hc W1 Hk1 Hec1 eq_refl Hn1' Hts)
    as (s2 & E2 & ec & E3 & W2 & Hws2 & Hsk2 & Hskon2 & Hn2).
  { by rewrite Hskon1, Hsk1. }
  rewrite E2. cbn [rbind]. rewrite E3. cbn [rbind]. rewrite Hws2, Hws1.
  replace (sat_add64 (sat_sub (u_ws s) vw') w) with (map_weight (u_map s1)).
  2:{ unfold sat_sub. rewrite sat_add64_big by lia. lia. }
  destruct (maybe_enable_ok _ _ W2) as (W3 & Hn3 & Hl3 & Hf3).
  eexists. split; [reflexivity|]. split; [done|]. rewrite Hn3. simpl_set. split; [lia|].
  split.
  - etrans; [exact Hl3|]. unfold sk_load. simpl_set. rewrite Hsk2, Hsk1. lia.
  - destruct Hf3 as [[F1 F2]|(F1 & F2 & cap & F3)]; simpl_set.
    + left. split; congruence.
    + right. split; [congruence|]. split; [done|]. exists cap. congruence.
Qed.


(** * insert: an existing key *)
Lemma wfs_replace c s k old v w :
  WFs c None s -> u_map s !! k = Some old -> w = weigh c k v ->
  WFs c None (UModel.set_map s (<[k := mkUE v w (ue_ao old) (ue_wo old)]> (u_map s))).
Proof.
  intros [Nao Nwo Iao Iwo Mao Aom Mwo Wom Tao Two Wgt Sk Pend] Hk ->.
  constructor; simpl_set; try done.
  - intros k' e' H Hpk. destruct (decide (k' = k)) as [->|Hne].
    + rewrite lookup_insert in H. injection H as <-. cbn [ue_ao]. by apply (Mao _ _ Hk).
    + rewrite lookup_insert_ne in H by done. by apply (Mao _ _ H).
  - intros m b H. destruct (Aom _ _ H) as (e' & E1 & E2).
    destruct (decide (an_key b = k)) as [Heq|Hne].
    + rewrite Heq in *. rewrite lookup_insert. eexists. split; [reflexivity|]. cbn [ue_ao]. congruence.
    + rewrite lookup_insert_ne by done. eauto.
  - intros k' e' H Hpk. destruct (decide (k' = k)) as [->|Hne].
    + rewrite lookup_insert in H. injection H as <-. cbn [ue_wo]. by apply (Mwo _ _ Hk).
    + rewrite lookup_insert_ne in H by done. by apply (Mwo _ _ H).
  - intros m b H. destruct (Wom _ _ H) as (Httl & e' & E1 & E2). split; [done|].
    destruct (decide (wn_key b = k)) as [Heq|Hne].
    + rewrite Heq in *. rewrite lookup_insert. eexists. split; [reflexivity|]. cbn [ue_wo]. congruence.
    + rewrite lookup_insert_ne by done. eauto.
  - intros k' e' H. destruct (decide (k' = k)) as [->|Hne].
    + rewrite lookup_insert in H. by injection H as <-.
    + rewrite lookup_insert_ne in H by done. eauto.
Qed.

Lemma handle_update_ok c s0 k v ts old :
  cfg_ok c -> WF c s0 -> u_map s0 !! k = Some old -> u_next s0 < 2 ^ 32 ->
  (is_Some ts <-> has_expiry c = true) ->
  exists s', handle_update c (UModel.set_map s0 (<[k := mkUE v (weigh c k v) None None]> (u_map s0)))
                           k ts (weigh c k v) old = Ok s' /\
    WF c s' /\ u_next s' = u_next s0 /\ u_sk s' = u_sk s0 /\ u_skon s' = u_skon s0.
Proof.
  intros Hc W Hk Hn Hts. apply WF_WFs in W as (W & Hec & Hws).
  unfold handle_update. simpl_set. rewrite lookup_insert. cbn [ue_val]. rewrite insert_insert.
  set (w := weigh c k v). set (e := mkUE v w (ue_ao old) (ue_wo old)).
  set (m1 := <[k:=e]> (u_map s0)).
  set (s1 := UModel.set_map (UModel.set_map s0 _) m1).
  assert (W1 : WFs c None s1) by exact (wfs_replace c s0 k old v w W Hk eq_refl).
  assert (Hk1 : u_map s1 !! k = Some e) by apply lookup_insert.
  assert (C1 : same_core s1 s1) by apply same_core_refl.
  assert (H2 : exists s2,
    match ts with
    | Some t => s' <-r set_last_accessed s1 e t; set_last_modified s' e t
    | None => Ok s1
    end = Ok s2 /\ WFs c None s2 /\ same_core s1 s2).
  { destruct ts as [t|]; [|eauto].
    assert (Hex : has_expiry c = true) by (apply Hts; by eexists).
    destruct (set_last_accessed_ok c None s1 k e t W1 Hk1 ltac:(done) Hex) as (p & E & Wp).
    rewrite E. cbn [rbind].
    destruct (set_last_modified_ok c None (set_prob s1 p) k e t Wp Hk1 ltac:(done)) as (w' & E' & Ww).
    rewrite E'. eexists. split; [reflexivity|]. split; [done|].
    eapply same_core_trans; [apply same_core_set_prob|apply same_core_set_wo]. }
  destruct H2 as (s2 & E2 & W2 & C2). rewrite E2. cbn [rbind].
  assert (Hk2 : u_map s2 !! k = Some e) by (destruct C2 as (-> & _); done).
  destruct (move_to_back_ao_ok c None s2 k e W2 Hk2 ltac:(done)) as (p & E3 & W3 & _).
  rewrite E3. cbn [rbind].
  assert (H4 : exists s4,
    match uc_ttl c with Some _ => move_to_back_wo (set_prob s2 p) e | None => Ok (set_prob s2 p) end = Ok s4 /\
    WFs c None s4 /\ same_core s2 s4).
  { destruct (uc_ttl c) as [ttl|] eqn:Ettl.
    - destruct (move_to_back_wo_ok c None (set_prob s2 p) k e W3 Hk2 ltac:(done)) as (w' & E4 & W4 & _).
      { by rewrite Ettl. }
      rewrite E4. eexists. split; [reflexivity|]. split; [done|].
      eapply same_core_trans; [apply same_core_set_prob|apply same_core_set_wo].
    - eexists. split; [reflexivity|]. split; [done|]. apply same_core_set_prob. }
  destruct H4 as (s4 & E4 & W4 & C4). rewrite E4. cbn [rbind].
  destruct (same_core_trans _ _ _ C2 C4) as (Dm & Dec & Dws & Dsk & Dskon & Dn).
  subst s1. simpl_set.
  eexists. split; [reflexivity|]. simpl_set. split; [|done].
  apply WF_WFs. split; [by apply WFs_set_ws|]. simpl_set.
  rewrite Dm, Dec, Dws. subst m1.
  split.
  - rewrite Hec. symmetry. by eapply map_count_insert_Some.
  - pose proof (map_weight_insert_Some _ _ _ e Hk) as Hmw. change (ue_weight e) with w in Hmw.
    pose proof (lookup_weight_le _ _ _ Hk) as Hle.
    assert (Hn4 : u_next s4 < 2 ^ 32) by (by rewrite Dn).
    pose proof (wfs_weight_big _ _ _ Hc W4 Hn4) as Hbig. rewrite Dm in Hbig.
    unfold sat_sub. rewrite sat_add64_big by lia. lia.
Qed.

(** * The operations *)
Lemma shrinks_WF' c s s' : WF' c s -> WF c s' -> shrinks s s' -> WF' c s'.
Proof.
  intros [_ Hoff] W' (_ & _ & _ & Hsk & Hskon & _). split; [done|]. rewrite Hsk, Hskon. done.
Qed.

Lemma shrinks_load s s' : shrinks s s' -> sk_load s' = sk_load s.
Proof. intros (_ & _ & _ & Hsk & _). unfold sk_load. by rewrite Hsk. Qed.

Lemma shrinks_next s s' : shrinks s s' -> u_next s' = u_next s.
Proof. by intros (_ & _ & _ & _ & _ & ?). Qed.

Lemma maintain_ts c s now s' ts :
  maintain c s now = Ok (s', ts) -> ts = if has_expiry c then Some now else None.
Proof.
  unfold maintain, evict_expired_if_needed. destruct (has_expiry c).
  - destruct (evict_expired c s now); cbn [rbind]; [|done].
    destruct (evict_lru_entries c _); cbn [rbind]; [|done]. by intros [= _ <-].
  - cbn [rbind]. destruct (evict_lru_entries c _); cbn [rbind]; [|done]. by intros [= _ <-].
Qed.

Lemma ts_ok c (now : N) : is_Some (if has_expiry c then Some now else None) <-> has_expiry c = true.
Proof.
  destruct (has_expiry c); split; intros H; try done; try (by eexists); by destruct H.
Qed.

Lemma maintain_wf c s now :
  cfg_ok c -> WF' c s -> small s ->
  exists s' ts, maintain c s now = Ok (s', ts) /\ WF' c s' /\
    u_next s' = u_next s /\ sk_load s' = sk_load s.
Proof.
  intros Hc W [Hn _]. destruct (maintain_ok c s now Hc (WF'_WF _ _ W) Hn) as (s' & E & W' & Sh).
  eexists _, _. split; [exact E|]. split; [by eapply shrinks_WF'|].
  split; [by apply shrinks_next|by apply shrinks_load].
Qed.

Lemma maintain_subset c s now s' ts :
  cfg_ok c -> WF' c s -> small s -> maintain c s now = Ok (s', ts) ->
  u_map s' ⊆ u_map s /\ u_sk s' = u_sk s /\ u_skon s' = u_skon s /\
  sublist (u_prob s') (u_prob s) /\ sublist (u_wo s') (u_wo s).
Proof.
  intros Hc W [Hn _] E. destruct (maintain_ok c s now Hc (WF'_WF _ _ W) Hn) as (s1 & E1 & _ & Sh).
  rewrite E in E1. injection E1 as -> _. destruct Sh as (? & ? & ? & ? & ? & ?). done.
Qed.

Lemma evict_expired_wf c s now :
  cfg_ok c -> WF' c s -> small s ->
  exists s', evict_expired c s now = Ok s' /\ WF' c s' /\
    u_next s' = u_next s /\ sk_load s' = sk_load s.
Proof.
  intros Hc W [Hn _]. destruct (evict_expired_ok c s now Hc (WF'_WF _ _ W) Hn) as (s' & E & W' & Sh).
  eexists. split; [exact E|]. split; [by eapply shrinks_WF'|].
  split; [by apply shrinks_next|by apply shrinks_load].
Qed.

Lemma evict_lru_entries_wf c s :
  cfg_ok c -> WF' c s -> small s ->
  exists s', evict_lru_entries c s = Ok s' /\ WF' c s' /\
    u_next s' = u_next s /\ sk_load s' = sk_load s.
Proof.
  intros Hc W [Hn _]. destruct (evict_lru_entries_ok c s Hc (WF'_WF _ _ W) Hn) as (s' & E & W' & Sh).
  eexists. split; [exact E|]. split; [by eapply shrinks_WF'|].
  split; [by apply shrinks_next|by apply shrinks_load].
Qed.

Lemma u_insert_ok c s now k v :
  cfg_ok c -> WF' c s -> small s ->
  exists s', u_insert c s now k v = Ok s' /\ WF' c s' /\
    u_next s <= u_next s' <= u_next s + 2 /\ sk_load s' <= sk_load s /\ sk_ins_frame s s'.
Proof.
  intros Hc W [Hn Hl]. destruct (maintain_ok c s now Hc (WF'_WF _ _ W) Hn) as (s1 & E1 & W1 & Sh).
  unfold u_insert. rewrite E1. cbn [rbind].
  pose proof (shrinks_WF' _ _ _ W W1 Sh) as [_ Hoff1].
  destruct Sh as (_ & _ & _ & Hsk & Hskon & Hnx).
  assert (Hn1 : u_next s1 < 2 ^ 32) by (by rewrite Hnx).
  destruct (u_map s1 !! k) as [old|] eqn:Hk.
  - destruct (handle_update_ok c s1 k v _ old Hc W1 Hk Hn1 (ts_ok c now))
      as (s' & E & W' & Dn & Dsk & Dskon).
    exists s'. split; [exact E|]. split.
    { split; [done|]. rewrite Dsk, Dskon. done. }
    split; [lia|]. split; [unfold sk_load; rewrite Dsk, Hsk; lia|].
    left. split; congruence.
  - pose proof W1 as W1s. apply WF_WFs in W1s as (W1s & Hec & Hws).
    destruct (handle_insert_ok c (UModel.set_map s1 (<[k := mkUE v (weigh c k v) None None]> (u_map s1)))
                k v (weigh c k v) (if has_expiry c then Some now else None) Hc)
      as (s' & E & W' & Dn & Dl & Df).
    + by apply wfs_add_pending.
    + simpl_set. apply lookup_insert.
    + simpl_set. rewrite map_count_insert_None by done. lia.
    + simpl_set. rewrite map_weight_insert by done. cbn [ue_weight]. lia.
    + done.
    + apply ts_ok.
    + done.
    + simpl_set. exists s'. split; [exact E|]. split; [done|]. split; [lia|].
      split.
      * etrans; [exact Dl|]. unfold sk_load. simpl_set. rewrite Hsk. lia.
      * destruct Df as [[F1 F2]|(F1 & F2 & cap & F3)]; simpl_set.
        -- left. split; congruence.
        -- right. split; [congruence|]. split; [done|]. exists cap. congruence.
Qed.

Lemma increment_empty h : increment sk_empty h = Ok sk_empty.
Proof. reflexivity. Qed.

Lemma WF_set_sk c s sk on : WF c s -> sk_wf sk -> WF c (set_sk s sk on).
Proof. intros [] ?. constructor; simpl_set; done. Qed.

Lemma u_get_ok c s now k :
  cfg_ok c -> WF' c s -> small s ->
  exists s' v, u_get c s now k = Ok (s', v) /\ WF' c s' /\
    u_next s' = u_next s /\ sk_load s' <= sk_load s + 4 /\
    u_skon s' = u_skon s /\
    exists s1 ts sk1, maintain c s now = Ok (s1, ts) /\
      increment (u_sk s1) (uc_hash c k) = Ok sk1 /\ u_sk s' = sk1.
Proof.
  intros Hc W [Hn Hl]. destruct (maintain_ok c s now Hc (WF'_WF _ _ W) Hn) as (s1 & E1 & W1 & Sh).
  cut (exists s' v, u_get c s now k = Ok (s', v) /\ WF' c s' /\
    u_next s' = u_next s /\ sk_load s' <= sk_load s + 4 /\
    u_skon s' = u_skon s /\ increment (u_sk s1) (uc_hash c k) = Ok (u_sk s')).
  { intros (s' & v & A1 & A2 & A3 & A4 & A5 & A6). exists s', v. do 5 (split; [done|]).
    eexists _, _, _. split; [exact E1|]. split; [exact A6|done]. }
  unfold u_get. rewrite E1. cbn [rbind].
  pose proof (shrinks_WF' _ _ _ W W1 Sh) as [_ Hoff1].
  pose proof (shrinks_load _ _ Sh) as Hl1.
  destruct Sh as (_ & _ & _ & Hsk & Hskon & Hnx).
  destruct (increment_ok_load (u_sk s1) (uc_hash c k)) as (sk1 & Ei & Wsk & _ & _ & _ & Hload).
  { apply W1. } { fold (sk_load s1). rewrite Hl1, pow2_28. rewrite pow2_27 in Hl. lia. }
  rewrite Ei. cbn [rbind].
  set (s2 := set_sk s1 sk1 (u_skon s1)).
  assert (W2 : WF' c s2).
  { split; [by apply WF_set_sk|]. subst s2. simpl_set. intros Hoff.
    specialize (Hoff1 Hoff). rewrite Hoff1, increment_empty in Ei. congruence. }
  assert (Hl2 : sk_load s2 <= sk_load s + 4).
  { rewrite <-Hl1. unfold sk_load. subst s2. simpl_set. done. }
  assert (Hbase : forall v : option N, exists s' v', @Ok (ustate * option N) (s2, v) = Ok (s', v') /\ WF' c s' /\
    u_next s' = u_next s /\ sk_load s' <= sk_load s + 4 /\ u_skon s' = u_skon s /\
    Ok sk1 = Ok (u_sk s')).
  { intros v. exists s2, v. split; [done|]. split; [done|]. subst s2. simpl_set. done. }
  pose proof W2 as W2s. destruct W2s as [W2s _]. apply WF_WFs in W2s as (W2s & Hec2 & Hws2).
  destruct (u_map s2 !! k) as [e|] eqn:Hk; [|apply Hbase].
  (* the tail shared by the two hit paths *)
  assert (Htail : forall s3, WFs c None s3 -> same_core s2 s3 ->
    exists s' v', (s4 <-r move_to_back_ao s3 e; Ok (s4, Some (ue_val e))) = Ok (s', v') /\ WF' c s' /\
    u_next s' = u_next s /\ sk_load s' <= sk_load s + 4 /\ u_skon s' = u_skon s /\
    Ok sk1 = Ok (u_sk s')).
  { intros s3 W3 C3.
    assert (Hk3 : u_map s3 !! k = Some e) by (destruct C3 as (-> & _); done).
    destruct (move_to_back_ao_ok c None s3 k e W3 Hk3 ltac:(done)) as (p & E4 & W4 & _).
    rewrite E4. cbn [rbind].
    destruct (same_core_trans _ _ _ C3 (same_core_set_prob s3 p)) as (Dm & Dec & Dws & Dsk & Dskon & Dn).
    eexists _, _. split; [reflexivity|]. split.
    { split.
      - apply WF_WFs. split; [done|]. rewrite Dm, Dec, Dws. done.
      - rewrite Dsk, Dskon. apply W2. }
    split; [rewrite Dn; subst s2; simpl_set; done|].
    split; [unfold sk_load in *; rewrite Dsk; done|].
    split; [rewrite Dskon; subst s2; simpl_set; done|].
    rewrite Dsk. done. }
  destruct (has_expiry c) eqn:Hex.
  - destruct (entry_expired_ok c None s2 k e now W2s Hk ltac:(done)) as (b & Eb).
    rewrite Eb. cbn [rbind]. destruct b; [apply Hbase|].
    destruct (set_last_accessed_ok c None s2 k e now W2s Hk ltac:(done) Hex) as (p & E3 & W3).
    rewrite E3. cbn [rbind]. apply Htail; [done|apply same_core_set_prob].
  - apply Htail; [done|apply same_core_refl].
Qed.

Lemma u_contains_ok c s now k :
  cfg_ok c -> WF' c s -> small s ->
  exists s' b, u_contains c s now k = Ok (s', b) /\ WF' c s' /\
    u_next s' = u_next s /\ sk_load s' = sk_load s /\
    maintain c s now = Ok (s', if has_expiry c then Some now else None).
Proof.
  intros Hc W [Hn Hl]. destruct (maintain_ok c s now Hc (WF'_WF _ _ W) Hn) as (s1 & E1 & W1 & Sh).
  unfold u_contains. rewrite E1. cbn [rbind].
  assert (Hbase : forall b : bool, exists s' b', @Ok (ustate * bool) (s1, b) = Ok (s', b') /\ WF' c s' /\
    u_next s' = u_next s /\ sk_load s' = sk_load s /\
    @Ok (ustate * option N) (s1, if has_expiry c then Some now else None) = Ok (s', if has_expiry c then Some now else None)).
  { intros b. exists s1, b. split; [done|]. split; [by eapply shrinks_WF'|].
    split; [by apply shrinks_next|]. split; [by apply shrinks_load|done]. }
  destruct (u_map s1 !! k) as [e|] eqn:Hk; [|apply Hbase].
  destruct (has_expiry c); [|apply Hbase].
  pose proof W1 as W1s. apply WF_WFs in W1s as (W1s & _).
  destruct (entry_expired_ok c None s1 k e now W1s Hk ltac:(done)) as (b & Eb).
  rewrite Eb. cbn [rbind]. apply Hbase.
Qed.

Lemma u_invalidate_ok c s now k :
  cfg_ok c -> WF' c s -> small s ->
  exists s', u_invalidate c s now k = Ok s' /\ WF' c s' /\
    u_next s' = u_next s /\ sk_load s' = sk_load s /\ shrinks s s'.
Proof.
  intros Hc W [Hn Hl]. destruct (maintain_ok c s now Hc (WF'_WF _ _ W) Hn) as (s1 & E1 & W1 & Sh).
  unfold u_invalidate. rewrite E1. cbn [rbind].
  destruct (u_map s1 !! k) as [e|] eqn:Hk.
  2:{ exists s1. split; [done|]. split; [by eapply shrinks_WF'|].
      split; [by apply shrinks_next|]. split; [by apply shrinks_load|done]. }
  pose proof W1 as W1s. apply WF_WFs in W1s as (W1s & Hec & Hws).
  destruct (evict_one _ _ _ _ _ W1s Hk ltac:(done)) as (s2 & E2 & W2 & Sh2 & Hm & Hec2 & Hws2 & _ & Hc2 & Hw2).
  rewrite E2. cbn [rbind].
  unfold chk_sub. destruct (N.leb_spec 1 (u_ec s2)) as [_|Hbad]; [|lia]. cbn [rbind].
  set (s3 := set_ws (set_ec s2 _) _).
  assert (Sh3 : shrinks s s3).
  { eapply shrinks_trans; [exact Sh|]. destruct Sh2 as (? & ? & ? & ? & ? & ?).
    subst s3. repeat split; simpl_set; done. }
  assert (W3 : WF c s3).
  { apply WF_WFs. split; [by apply WFs_set_counters|]. subst s3. simpl_set. unfold sat_sub. lia. }
  exists s3. split; [done|]. split; [by eapply shrinks_WF'|].
  split; [by apply shrinks_next|]. split; [by apply shrinks_load|done].
Qed.

Lemma u_invalidate_all_ok c s :
  WF' c s -> WF' c (u_invalidate_all s) /\ u_next (u_invalidate_all s) = u_next s /\
    sk_load (u_invalidate_all s) = sk_load s /\
    u_sk (u_invalidate_all s) = u_sk s /\ u_skon (u_invalidate_all s) = u_skon s.
Proof.
  intros [W Hoff]. split; [|done]. split; [|done].
  unfold u_invalidate_all. constructor; cbn [u_map u_prob u_wo u_ec u_ws u_sk u_next];
    try (intros ? ? H; by apply elem_of_nil in H);
    try (intros ? ? H; by rewrite lookup_empty in H).
  - constructor. - constructor.
  - by rewrite map_count_empty.
  - by rewrite map_weight_empty.
  - apply W.
Qed.

Lemma u_invalidate_if_ok c s p :
  cfg_ok c -> WF' c s -> small s ->
  exists s', u_invalidate_if s p = Ok s' /\ WF' c s' /\
    u_next s' = u_next s /\ sk_load s' = sk_load s /\ shrinks s s'.
Proof.
  intros Hc W [Hn Hl]. unfold u_invalidate_if.
  pose proof (WF'_WF _ _ W) as W0.
  pose proof (WF_small_big _ _ Hc W0 Hn) as Hb.
  pose proof W0 as W0s. apply WF_WFs in W0s as (W0s & _).
  destruct (invalidate_keys_ok c (List.filter (fun k => match u_map s !! k with Some e => p k (ue_val e) | None => false end) (map_to_list (u_map s)).*1) s 0 0 W0s Hb) as (s' & cnt' & wt' & E & P).
  rewrite E. cbn [rbind].
  destruct (finish_counts _ _ _ _ _ W0 P) as (ec & E2 & W2 & Sh2).
  rewrite E2. cbn [rbind]. eexists. split; [reflexivity|]. split; [by eapply shrinks_WF'|].
  split; [by apply shrinks_next|]. split; [by apply shrinks_load|done].
Qed.

Lemma filter_live_ok c s now : forall l,
  WFs c None s -> (forall k e, (k, e) ∈ l -> u_map s !! k = Some e) ->
  exists r, filter_live c s now l = Ok r.
Proof.
  induction l as [|[k e] l IH]; intros W Hl; cbn [filter_live]; [eauto|].
  destruct (entry_expired_ok c None s k e now W (Hl _ _ ltac:(left)) ltac:(done)) as (b & Eb).
  rewrite Eb. cbn [rbind].
  destruct (IH W) as (r & Er). { intros k' e' H. apply Hl. by right. }
  rewrite Er. cbn [rbind]. eauto.
Qed.

Lemma u_iter_ok c s now : WF' c s -> exists l, u_iter c s now = Ok l.
Proof.
  intros [W _]. apply WF_WFs in W as (W & _). unfold u_iter. apply filter_live_ok; [done|].
  intros k e H. by apply elem_of_map_to_list in H.
Qed.


(** * Per-operation characterisations (exported) *)
Lemma u_insert_wf c s now k v :
  cfg_ok c -> WF' c s -> small s ->
  exists s', u_insert c s now k v = Ok s' /\ WF' c s' /\
    u_next s <= u_next s' <= u_next s + 2 /\ sk_load s' <= sk_load s.
Proof.
  intros Hc W Hs. destruct (u_insert_ok c s now k v Hc W Hs) as (s' & ? & ? & ? & ? & _). eauto.
Qed.

Lemma u_insert_sketch c s now k v s' :
  cfg_ok c -> WF' c s -> small s -> u_insert c s now k v = Ok s' ->
  u_sk s' = u_sk s \/
  (u_skon s = false /\ u_skon s' = true /\ exists cap, u_sk s' = ensure_capacity (u_sk s) cap).
Proof.
  intros Hc W Hs E. destruct (u_insert_ok c s now k v Hc W Hs) as (s1 & E1 & _ & _ & _ & Hf).
  rewrite E in E1. injection E1 as <-. destruct Hf as [[? _]|?]; [by left|by right].
Qed.

Lemma u_get_wf c s now k :
  cfg_ok c -> WF' c s -> small s ->
  exists s' v, u_get c s now k = Ok (s', v) /\ WF' c s' /\
    u_next s' = u_next s /\ sk_load s' <= sk_load s + 4.
Proof.
  intros Hc W Hs. destruct (u_get_ok c s now k Hc W Hs) as (s' & v & ? & ? & ? & ? & _). eauto 10.
Qed.

Lemma u_get_sketch c s now k s' v :
  cfg_ok c -> WF' c s -> small s -> u_get c s now k = Ok (s', v) ->
  u_skon s' = u_skon s /\
  exists sk1, increment (u_sk s) (uc_hash c k) = Ok sk1 /\ u_sk s' = sk1.
Proof.
  intros Hc W Hs E.
  destruct (u_get_ok c s now k Hc W Hs) as (s1 & v1 & E1 & _ & _ & _ & Hon & s2 & ts & sk1 & Em & Ei & Hsk).
  rewrite E in E1. injection E1 as <- <-. split; [done|].
  destruct (maintain_subset c s now s2 ts Hc W Hs Em) as (_ & Hsk2 & _).
  exists sk1. by rewrite <-Hsk2.
Qed.

Lemma u_contains_wf c s now k :
  cfg_ok c -> WF' c s -> small s ->
  exists s' b, u_contains c s now k = Ok (s', b) /\ WF' c s' /\
    u_next s' = u_next s /\ sk_load s' = sk_load s.
Proof.
  intros Hc W Hs. destruct (u_contains_ok c s now k Hc W Hs) as (s' & b & ? & ? & ? & ? & _). eauto 10.
Qed.

(** contains_key changes nothing beyond maintenance (no invariant needed) *)
Lemma u_contains_frame c s now k s' b :
  u_contains c s now k = Ok (s', b) -> exists ts, maintain c s now = Ok (s', ts).
Proof.
  unfold u_contains. destruct (maintain c s now) as [[s1 ts]|err]; cbn [rbind]; [|done].
  intros H. exists ts.
  destruct (u_map s1 !! k) as [e|]; [|by injection H as <- _].
  destruct ts as [t|]; [|by injection H as <- _].
  destruct (entry_expired c s1 e t); cbn [rbind] in H; [|done]. by injection H as <- _.
Qed.

Lemma u_contains_sketch c s now k s' b :
  cfg_ok c -> WF' c s -> small s -> u_contains c s now k = Ok (s', b) ->
  u_sk s' = u_sk s /\ u_skon s' = u_skon s.
Proof.
  intros Hc W Hs E. destruct (u_contains_frame _ _ _ _ _ _ E) as (ts & Em).
  destruct (maintain_subset c s now s' ts Hc W Hs Em) as (_ & ? & ? & _). done.
Qed.

Lemma u_invalidate_wf c s now k :
  cfg_ok c -> WF' c s -> small s ->
  exists s', u_invalidate c s now k = Ok s' /\ WF' c s' /\
    u_next s' = u_next s /\ sk_load s' = sk_load s.
Proof.
  intros Hc W Hs. destruct (u_invalidate_ok c s now k Hc W Hs) as (s' & ? & ? & ? & ? & _). eauto 10.
Qed.

Lemma u_invalidate_sketch c s now k s' :
  cfg_ok c -> WF' c s -> small s -> u_invalidate c s now k = Ok s' ->
  u_sk s' = u_sk s /\ u_skon s' = u_skon s.
Proof.
  intros Hc W Hs E. destruct (u_invalidate_ok c s now k Hc W Hs) as (s1 & E1 & _ & _ & _ & Sh).
  rewrite E in E1. injection E1 as <-. destruct Sh as (_ & _ & _ & ? & ? & _). done.
Qed.

Lemma u_invalidate_subset c s now k s' :
  cfg_ok c -> WF' c s -> small s -> u_invalidate c s now k = Ok s' ->
  u_map s' ⊆ u_map s /\ sublist (u_prob s') (u_prob s) /\ sublist (u_wo s') (u_wo s).
Proof.
  intros Hc W Hs E. destruct (u_invalidate_ok c s now k Hc W Hs) as (s1 & E1 & _ & _ & _ & Sh).
  rewrite E in E1. injection E1 as <-. destruct Sh as (? & ? & ? & _). done.
Qed.

Lemma u_invalidate_if_wf c s p :
  cfg_ok c -> WF' c s -> small s ->
  exists s', u_invalidate_if s p = Ok s' /\ WF' c s' /\
    u_next s' = u_next s /\ sk_load s' = sk_load s.
Proof.
  intros Hc W Hs. destruct (u_invalidate_if_ok c s p Hc W Hs) as (s' & ? & ? & ? & ? & _). eauto 10.
Qed.

Lemma u_invalidate_if_sketch c s p s' :
  cfg_ok c -> WF' c s -> small s -> u_invalidate_if s p = Ok s' ->
  u_sk s' = u_sk s /\ u_skon s' = u_skon s.
Proof.
  intros Hc W Hs E. destruct (u_invalidate_if_ok c s p Hc W Hs) as (s1 & E1 & _ & _ & _ & Sh).
  rewrite E in E1. injection E1 as <-. destruct Sh as (_ & _ & _ & ? & ? & _). done.
Qed.

Lemma u_invalidate_if_subset c s p s' :
  cfg_ok c -> WF' c s -> small s -> u_invalidate_if s p = Ok s' ->
  u_map s' ⊆ u_map s /\ sublist (u_prob s') (u_prob s) /\ sublist (u_wo s') (u_wo s).
Proof.
  intros Hc W Hs E. destruct (u_invalidate_if_ok c s p Hc W Hs) as (s1 & E1 & _ & _ & _ & Sh).
  rewrite E in E1. injection E1 as <-. destruct Sh as (? & ? & ? & _). done.
Qed.

Lemma u_invalidate_all_wf c s :
  WF' c s -> WF' c (u_invalidate_all s) /\ u_next (u_invalidate_all s) = u_next s /\
    sk_load (u_invalidate_all s) = sk_load s.
Proof. intros W. destruct (u_invalidate_all_ok c s W) as (? & ? & ? & _). done. Qed.

Lemma u_invalidate_all_sketch s :
  u_sk (u_invalidate_all s) = u_sk s /\ u_skon (u_invalidate_all s) = u_skon s.
Proof. done. Qed.

Lemma u_iter_wf c s now :
  cfg_ok c -> WF' c s -> small s -> exists l, u_iter c s now = Ok l.
Proof. intros _ W _. by apply u_iter_ok. Qed.

(** iteration returns only a list: the step leaves the running cache untouched *)
Lemma u_iter_state c r r' out : ustep c r UIter = Ok (r', out) -> r' = r.
Proof.
  cbn [ustep]. destruct (u_iter c (ur_state r) (ur_now r)); cbn [rbind]; [|done]. by intros [= <- _].
Qed.

(** * Target statements *)
Lemma wf_init : forall c, WF' c u_init.
Proof.
  intros c. split; [|done].
  constructor; cbn [u_init u_map u_prob u_wo u_ec u_ws u_sk u_next];
    try (intros ? ? H; by apply elem_of_nil in H);
    try (intros ? ? H; by rewrite lookup_empty in H).
  - constructor. - constructor.
  - by rewrite map_count_empty.
  - by rewrite map_weight_empty.
  - apply sk_wf_empty.
Qed.

Theorem ustep_safe : forall c r o, cfg_ok c -> WF' c (ur_state r) -> small (ur_state r) ->
  exists r' out, ustep c r o = Ok (r', out) /\ WF' c (ur_state r') /\
    u_next (ur_state r') <= u_next (ur_state r) + 2 /\
    sk_load (ur_state r') <= sk_load (ur_state r) + 4 /\
    ur_now r <= ur_now r'.
Proof.
  intros c r o Hc W Hs. destruct o as [k v|k|k| |k| |p|d]; cbn [ustep].
  - destruct (u_insert_wf c _ (ur_now r) k v Hc W Hs) as (s' & E & W' & Hn & Hl).
    rewrite E. cbn [rbind]. eexists _, _. split; [reflexivity|]. cbn [ur_state ur_now].
    split; [done|]. lia.
  - destruct (u_get_wf c _ (ur_now r) k Hc W Hs) as (s' & v & E & W' & Hn & Hl).
    rewrite E. cbn [rbind]. eexists _, _. split; [reflexivity|]. cbn [ur_state ur_now].
    split; [done|]. lia.
  - destruct (u_contains_wf c _ (ur_now r) k Hc W Hs) as (s' & b & E & W' & Hn & Hl).
    rewrite E. cbn [rbind]. eexists _, _. split; [reflexivity|]. cbn [ur_state ur_now].
    split; [done|]. lia.
  - destruct (u_iter_wf c _ (ur_now r) Hc W Hs) as (l & E).
    rewrite E. cbn [rbind]. eexists _, _. split; [reflexivity|]. split; [done|]. lia.
  - destruct (u_invalidate_wf c _ (ur_now r) k Hc W Hs) as (s' & E & W' & Hn & Hl).
    rewrite E. cbn [rbind]. eexists _, _. split; [reflexivity|]. cbn [ur_state ur_now].
    split; [done|]. lia.
  - destruct (u_invalidate_all_wf c _ W) as (W' & Hn & Hl).
    eexists _, _. split; [reflexivity|]. cbn [ur_state ur_now]. split; [done|]. lia.
  - destruct (u_invalidate_if_wf c _ p Hc W Hs) as (s' & E & W' & Hn & Hl).
    rewrite E. cbn [rbind]. eexists _, _. split; [reflexivity|]. cbn [ur_state ur_now].
    split; [done|]. lia.
  - eexists _, _. split; [reflexivity|]. cbn [ur_state ur_now]. split; [done|]. lia.
Qed.

Theorem urun_safe_from : forall c ops r, cfg_ok c -> WF' c (ur_state r) ->
  u_next (ur_state r) + 2 * N.of_nat (length ops) < 2 ^ 32 ->
  sk_load (ur_state r) + 4 * N.of_nat (length ops) < 2 ^ 27 ->
  exists r' outs, urun_ops c r ops = Ok (r', outs) /\ WF' c (ur_state r') /\
    u_next (ur_state r') <= u_next (ur_state r) + 2 * N.of_nat (length ops) /\
    sk_load (ur_state r') <= sk_load (ur_state r) + 4 * N.of_nat (length ops) /\
    ur_now r <= ur_now r' /\ length outs = length ops.
Proof.
  intros c ops. induction ops as [|o ops IH]; intros r Hc W Hn Hl; cbn [urun_ops].
  - exists r, []. split; [done|]. split; [done|]. cbn [length]. lia.
  - cbn [length] in Hn, Hl. rewrite pow2_32 in Hn. rewrite pow2_27 in Hl.
    destruct (ustep_safe c r o Hc W) as (r1 & out & E1 & W1 & Hn1 & Hl1 & Ht1).
    { split; [rewrite pow2_32|rewrite pow2_27]; lia. }
    rewrite E1. cbn [rbind].
    destruct (IH r1 Hc W1) as (r2 & outs & E2 & W2 & Hn2 & Hl2 & Ht2 & Hlen).
    { rewrite pow2_32. lia. } { rewrite pow2_27. lia. }
    rewrite E2. cbn [rbind]. eexists _, _. split; [reflexivity|]. split; [done|].
    cbn [length]. lia.
Qed.

Theorem urun_safe : forall c ops, cfg_ok c -> N.of_nat (length ops) < 2 ^ 24 ->
  exists r outs, urun_ops c urun_init ops = Ok (r, outs) /\ WF' c (ur_state r).
Proof.
  intros c ops Hc Hlen. rewrite pow2_24 in Hlen.
  destruct (urun_safe_from c ops urun_init Hc (wf_init c)) as (r & outs & E & W & _).
  { rewrite pow2_32. cbn [urun_init ur_state u_init u_next]. lia. }
  { rewrite pow2_27. unfold sk_load. cbn [urun_init ur_state u_init u_sk sk_empty sk_table].
    rewrite map_size_empty. lia. }
  eauto.
Qed.

Corollary urun_counters : forall c ops r outs, cfg_ok c -> N.of_nat (length ops) < 2 ^ 24 ->
  urun_ops c urun_init ops = Ok (r, outs) ->
  u_ec (ur_state r) = map_count (u_map (ur_state r)) /\ u_ws (ur_state r) = map_weight (u_map (ur_state r)).
Proof.
  intros c ops r outs Hc Hlen E. destruct (urun_safe c ops Hc Hlen) as (r' & outs' & E' & [W _]).
  rewrite E in E'. injection E' as <- <-. split; apply W.
Qed.

Lemma urun_ops_app : forall c r ops1 ops2,
  urun_ops c r (ops1 ++ ops2) =
  match urun_ops c r ops1 with
  | Ok (r1, o1) => match urun_ops c r1 ops2 with Ok (r2, o2) => Ok (r2, o1 ++ o2) | Err e => Err e end
  | Err e => Err e
  end.
Proof.
  intros c r ops1. revert r. induction ops1 as [|o ops1 IH]; intros r ops2.
  - cbn [app urun_ops]. destruct (urun_ops c r ops2) as [[r2 o2]|e]; done.
  - cbn [app urun_ops]. destruct (ustep c r o) as [[r1 out]|e]; cbn [rbind]; [|done].
    rewrite IH. destruct (urun_ops c r1 ops1) as [[r2 o1]|e]; cbn [rbind]; [|done].
    destruct (urun_ops c r2 ops2) as [[r3 o2]|e]; done.
Qed.

Print Assumptions ustep_safe.
Print Assumptions urun_safe.
Print Assumptions urun_safe_from.
Print Assumptions urun_counters.
Print Assumptions urun_ops_app.
Print Assumptions maintain_subset.
