(** Executable model of src/unsync/cache.rs (+ unsync/deques.rs, unsync.rs, iter.rs),
    function by function.  Keys and values are N; the hasher and the weigher are
    arbitrary functions carried by the configuration.  A deque is an id-tagged list
    (front = LRU); a node is live iff it is a member, so dereferencing an id that is
    not in the list is [Err UseAfterFree].  Every `expect`/`unwrap`/`unreachable!`/
    checked arithmetic of the source is a checked operation here.  Definitions only. *)
From MM Require Export Base.Prelude Base.SoftF64 Gen.Consts Sketch.SketchModel.

Record ucfg := mkUCfg {
  uc_cap  : option N;                 (* max_capacity *)
  uc_ttl  : option N;                 (* time_to_live, ns *)
  uc_tti  : option N;                 (* time_to_idle, ns *)
  uc_wf   : option (N -> N -> N);     (* weigher (returns u32) *)
  uc_hash : N -> N                    (* BuildHasher::hash_one, u64 *)
}.

Record aonode := mkAo { an_key : N; an_hash : N; an_ts : option N }.
Record wonode := mkWo { wn_key : N; wn_ts : option N }.

Record uentry := mkUE {
  ue_val : N;
  ue_weight : N;                      (* policy_weight : u32 *)
  ue_ao : option N;                   (* access_order_q_node (always tagged MainProbation) *)
  ue_wo : option N                    (* write_order_q_node *)
}.

Record ustate := mkU {
  u_map  : gmap N uentry;
  u_prob : list (N * aonode);         (* deques.probation, front first *)
  u_wo   : list (N * wonode);         (* deques.write_order, front first *)
  u_ec   : N;                         (* entry_count : u64 *)
  u_ws   : N;                         (* weighted_size : u64 *)
  u_sk   : sketch;
  u_skon : bool;                      (* frequency_sketch_enabled *)
  u_next : N                          (* next fresh node id (allocation counter) *)
}.

Definition u_init : ustate := mkU ∅ [] [] 0 0 sk_empty false 0.

Definition set_map (s : ustate) m := mkU m (u_prob s) (u_wo s) (u_ec s) (u_ws s) (u_sk s) (u_skon s) (u_next s).
Definition set_prob (s : ustate) p := mkU (u_map s) p (u_wo s) (u_ec s) (u_ws s) (u_sk s) (u_skon s) (u_next s).
Definition set_wo (s : ustate) w := mkU (u_map s) (u_prob s) w (u_ec s) (u_ws s) (u_sk s) (u_skon s) (u_next s).
Definition set_ec (s : ustate) n := mkU (u_map s) (u_prob s) (u_wo s) n (u_ws s) (u_sk s) (u_skon s) (u_next s).
Definition set_ws (s : ustate) n := mkU (u_map s) (u_prob s) (u_wo s) (u_ec s) n (u_sk s) (u_skon s) (u_next s).
Definition set_sk (s : ustate) k on := mkU (u_map s) (u_prob s) (u_wo s) (u_ec s) (u_ws s) k on (u_next s).
Definition set_next (s : ustate) n := mkU (u_map s) (u_prob s) (u_wo s) (u_ec s) (u_ws s) (u_sk s) (u_skon s) n.

Definition weigh (c : ucfg) (k v : N) : N :=
  match uc_wf c with Some f => f k v | None => 1 end.

Definition has_expiry (c : ucfg) : bool :=
  match uc_ttl c, uc_tti c with None, None => false | _, _ => true end.

(** is_expired_entry_{wo,ao} on an already-read timestamp: `ts + d <= now`.
    (Instant::checked_add cannot fail for d <= 1000 years: see DESIGN.md section 6.) *)
Definition expired_at (d : option N) (ts : option N) (now : N) : bool :=
  match ts, d with
  | Some t, Some d => t + d <=? now
  | _, _ => false
  end.

(** ---- deque primitives on id-tagged lists ---- *)
Definition deq_move_to_back {A} (n : N) (l : list (N * A)) : res (list (N * A)) :=
  match find_id n l with
  | Some a => Ok (remove_id n l ++ [(n, a)])
  | None => Err UseAfterFree
  end.

Definition deq_unlink {A} (n : N) (l : list (N * A)) : res (list (N * A)) :=
  if mem_id n l then Ok (remove_id n l) else Err UseAfterFree.

(** ValueEntry::last_accessed / last_modified: read through the node pointers *)
Definition entry_la (s : ustate) (e : uentry) : res (option N) :=
  match ue_ao e with
  | None => Ok None
  | Some n => match find_id n (u_prob s) with
              | Some nd => Ok (an_ts nd)
              | None => Err UseAfterFree
              end
  end.

Definition entry_lm (s : ustate) (e : uentry) : res (option N) :=
  match ue_wo e with
  | None => Ok None
  | Some n => match find_id n (u_wo s) with
              | Some nd => Ok (wn_ts nd)
              | None => Err UseAfterFree
              end
  end.

(** is_expired_entry_wo(ttl, entry, now) || is_expired_entry_ao(tti, entry, now)
    (short-circuit: the ao check only runs when the wo check is false) *)
Definition entry_expired (c : ucfg) (s : ustate) (e : uentry) (now : N) : res bool :=
  lm <-r entry_lm s e;
  if expired_at (uc_ttl c) lm now then Ok true
  else la <-r entry_la s e; Ok (expired_at (uc_tti c) la now).

(** deques.unlink_ao(entry) followed by Deques::unlink_wo(write_order, entry) *)
Definition unlink_entry (s : ustate) (e : uentry) : res ustate :=
  p <-r match ue_ao e with Some n => deq_unlink n (u_prob s) | None => Ok (u_prob s) end;
  w <-r match ue_wo e with Some n => deq_unlink n (u_wo s) | None => Ok (u_wo s) end;
  Ok (set_wo (set_prob s p) w).

(** move_to_back_ao(entry) *)
Definition move_to_back_ao (s : ustate) (e : uentry) : res ustate :=
  match ue_ao e with
  | Some n => p <-r deq_move_to_back n (u_prob s); Ok (set_prob s p)
  | None => Ok s
  end.

(** move_to_back_wo(entry): `entry.write_order_q_node().unwrap()` *)
Definition move_to_back_wo (s : ustate) (e : uentry) : res ustate :=
  match ue_wo e with
  | Some n => w <-r deq_move_to_back n (u_wo s); Ok (set_wo s w)
  | None => Err ExpectFailed
  end.

Definition set_last_accessed (s : ustate) (e : uentry) (ts : N) : res ustate :=
  match ue_ao e with
  | Some n => if mem_id n (u_prob s)
              then Ok (set_prob s (update_id n (fun nd => mkAo (an_key nd) (an_hash nd) (Some ts)) (u_prob s)))
              else Err UseAfterFree
  | None => Ok s
  end.

Definition set_last_modified (s : ustate) (e : uentry) (ts : N) : res ustate :=
  match ue_wo e with
  | Some n => if mem_id n (u_wo s)
              then Ok (set_wo s (update_id n (fun nd => mkWo (wn_key nd) (Some ts)) (u_wo s)))
              else Err UseAfterFree
  | None => Ok s
  end.

(** ---- expiry purge ---- *)

(** remove_expired_wo: returns (state, evicted count, evicted weight) *)
Fixpoint remove_expired_wo (c : ucfg) (fuel : nat) (s : ustate) (now : N) (cnt wt : N)
  : res (ustate * N * N) :=
  match fuel with
  | O => Ok (s, cnt, wt)
  | S fuel' =>
    match u_wo s with
    | [] => Ok (s, cnt, wt)
    | (nid, nd) :: rest =>
      if expired_at (uc_ttl c) (wn_ts nd) now then
        let k := wn_key nd in
        match u_map s !! k with
        | Some e =>
          s1 <-r unlink_entry (set_map s (delete k (u_map s))) e;
          remove_expired_wo c fuel' s1 now (cnt + 1) (sat_add64 wt (ue_weight e))
        | None =>
          remove_expired_wo c fuel' (set_wo s rest) now cnt wt      (* pop_front *)
        end
      else Ok (s, cnt, wt)
    end
  end.

(** remove_expired_ao on the probation deque *)
Fixpoint remove_expired_ao (c : ucfg) (fuel : nat) (s : ustate) (now : N) (cnt wt : N)
  : res (ustate * N * N) :=
  match fuel with
  | O => Ok (s, cnt, wt)
  | S fuel' =>
    match u_prob s with
    | [] => Ok (s, cnt, wt)
    | (nid, nd) :: rest =>
      if expired_at (uc_tti c) (an_ts nd) now then
        let k := an_key nd in
        match u_map s !! k with
        | Some e =>
          s1 <-r unlink_entry (set_map s (delete k (u_map s))) e;
          remove_expired_ao c fuel' s1 now (cnt + 1) (sat_add64 wt (ue_weight e))
        | None =>
          remove_expired_ao c fuel' (set_prob s rest) now cnt wt    (* pop_front *)
        end
      else Ok (s, cnt, wt)
    end
  end.

Definition batch_u : nat := N.to_nat U_EVICTION_BATCH_SIZE.

(** evict_expired *)
Definition evict_expired (c : ucfg) (s : ustate) (now : N) : res ustate :=
  s1 <-r match uc_ttl c with
         | Some _ =>
           '(s', cnt, wt) <-r remove_expired_wo c batch_u s now 0 0;
           ec <-r chk_sub (u_ec s') cnt;
           Ok (set_ws (set_ec s' ec) (sat_sub (u_ws s') wt))
         | None => Ok s
         end;
  match uc_tti c with
  | Some _ =>
    '(s', cnt, wt) <-r remove_expired_ao c batch_u s1 now 0 0;
    ec <-r chk_sub (u_ec s') cnt;
    Ok (set_ws (set_ec s' ec) (sat_sub (u_ws s') wt))
  | None => Ok s1
  end.

(** evict_expired_if_needed: returns the timestamp the operation works with *)
Definition evict_expired_if_needed (c : ucfg) (s : ustate) (now : N) : res (ustate * option N) :=
  if has_expiry c then s' <-r evict_expired c s now; Ok (s', Some now)
  else Ok (s, None).

(** ---- size eviction ---- *)
Definition weights_to_evict (c : ucfg) (s : ustate) : N :=
  match uc_cap c with Some limit => sat_sub (u_ws s) limit | None => 0 end.

Fixpoint evict_lru_loop (fuel : nat) (s : ustate) (to_evict cnt wt : N) : res (ustate * N * N) :=
  match fuel with
  | O => Ok (s, cnt, wt)
  | S fuel' =>
    if to_evict <=? wt then Ok (s, cnt, wt)
    else
      match u_prob s with
      | [] => Ok (s, cnt, wt)
      | (nid, nd) :: rest =>
        let k := an_key nd in
        match u_map s !! k with
        | Some e =>
          s1 <-r unlink_entry (set_map s (delete k (u_map s))) e;
          evict_lru_loop fuel' s1 to_evict (cnt + 1) (sat_add64 wt (ue_weight e))
        | None =>
          evict_lru_loop fuel' (set_prob s rest) to_evict cnt wt     (* pop_front *)
        end
      end
  end.

Definition evict_lru_entries (c : ucfg) (s : ustate) : res ustate :=
  '(s', cnt, wt) <-r evict_lru_loop batch_u s (weights_to_evict c s) 0 0;
  ec <-r chk_sub (u_ec s') cnt;
  Ok (set_ws (set_ec s' ec) (sat_sub (u_ws s') wt)).

(** the maintenance every get / contains_key / insert / invalidate starts with *)
Definition maintain (c : ucfg) (s : ustate) (now : N) : res (ustate * option N) :=
  '(s1, ts) <-r evict_expired_if_needed c s now;
  s2 <-r evict_lru_entries c s1;
  Ok (s2, ts).

(** ---- popularity estimator ---- *)
Definition should_enable_sketch (c : ucfg) (s : ustate) : bool :=
  if u_skon s then false
  else match uc_cap c with Some max_cap => max_cap / 2 <=? u_ws s | None => false end.

Definition enable_sketch (c : ucfg) (s : ustate) : ustate :=
  match uc_cap c with
  | Some max_cap =>
    let cap := match uc_wf c with
               | None => max_cap
               | Some _ => weighted_sketch_cap (u_ec s) (u_ws s) max_cap
               end in
    set_sk s (ensure_capacity (u_sk s) (sketch_capacity cap)) true
  | None => s
  end.

Definition maybe_enable_sketch (c : ucfg) (s : ustate) : ustate :=
  if should_enable_sketch c s then enable_sketch c s else s.

(** ---- insert ---- *)
Definition has_enough_capacity (c : ucfg) (w ws : N) : res bool :=
  match uc_cap c with
  | Some limit => sum <-r chk_add64 ws w; Ok (sum <=? limit)
  | None => Ok true
  end.

(** push the candidate's nodes and account for it (the tail shared by both admission paths) *)
Definition push_candidate (c : ucfg) (s : ustate) (k h w : N) (ts : option N) : res ustate :=
  match u_map s !! k with
  | None => Err ExpectFailed                      (* cache.get_mut(&key).unwrap() *)
  | Some e =>
    let n := u_next s in
    let s1 := set_next (set_prob s (u_prob s ++ [(n, mkAo k h ts)])) (n + 1) in
    let '(s2, wo_id) :=
      match uc_ttl c with
      | Some _ => let n2 := u_next s1 in
                  (set_next (set_wo s1 (u_wo s1 ++ [(n2, mkWo k ts)])) (n2 + 1), Some n2)
      | None => (s1, None)
      end in
    Ok (set_map s2 (<[k := mkUE (ue_val e) (ue_weight e) (Some n) wo_id]> (u_map s2)))
  end.

(** admit: aggregate potential victims from the LRU end.
    Returns (victim node ids in order, victims weight, victims freq). *)
Fixpoint admit_loop (c : ucfg) (s : ustate) (l : list (N * aonode))
         (cand_w cand_f vw vf : N) (acc : list N) : res (list N * N * N) :=
  if cand_w <=? vw then Ok (acc, vw, vf)
  else if cand_f <? vf then Ok (acc, vw, vf)
  else
    match l with
    | [] => Ok (acc, vw, vf)
    | (nid, nd) :: rest =>
      match u_map s !! an_key nd with
      | None => Err ExpectFailed                  (* expect("Cannot get an victim entry") *)
      | Some e =>
        vw' <-r chk_add64 vw (weigh c (an_key nd) (ue_val e));
        vf' <-r chk_add32 vf (frequency (u_sk s) (an_hash nd));
        admit_loop c s rest cand_w cand_f vw' vf' (acc ++ [nid])
      end
    end.

(** removing the victims chosen by admit *)
Fixpoint remove_victims (s : ustate) (victims : list N) : res ustate :=
  match victims with
  | [] => Ok s
  | nid :: rest =>
    match find_id nid (u_prob s) with
    | None => Err UseAfterFree                     (* victim.as_ref() on a freed node *)
    | Some nd =>
      match u_map s !! an_key nd with
      | None => Err ExpectFailed                   (* expect("Cannot remove a victim ...") *)
      | Some e =>
        s1 <-r unlink_entry (set_map s (delete (an_key nd) (u_map s))) e;
        ec <-r chk_sub (u_ec s1) 1;
        remove_victims (set_ec s1 ec) rest
      end
    end
  end.

Definition handle_insert (c : ucfg) (s : ustate) (k h w : N) (ts : option N) : res ustate :=
  free <-r has_enough_capacity c w (u_ws s);
  if free then
    s1 <-r push_candidate c s k h w ts;
    ec <-r chk_add64 (u_ec s1) 1;
    Ok (maybe_enable_sketch c (set_ws (set_ec s1 ec) (sat_add64 (u_ws s1) w)))
  else if match uc_cap c with Some max => max <? w | None => false end then
    Ok (set_map s (delete k (u_map s)))            (* too big: reject *)
  else
    let cand_f := frequency (u_sk s) h in
    '(victims, vw, vf) <-r admit_loop c s (u_prob s) w cand_f 0 0 [];
    if (w <=? vw) && (vf <? cand_f) then
      s1 <-r remove_victims s victims;
      s2 <-r push_candidate c s1 k h w ts;
      ec <-r chk_add64 (u_ec s2) 1;
      Ok (maybe_enable_sketch c
            (set_ws (set_ec s2 ec) (sat_add64 (sat_sub (u_ws s2) vw) w)))
    else
      Ok (set_map s (delete k (u_map s))).          (* rejected *)

Definition handle_update (c : ucfg) (s : ustate) (k : N) (ts : option N) (w : N) (old : uentry)
  : res ustate :=
  match u_map s !! k with
  | None => Err ExpectFailed
  | Some e0 =>
    let e := mkUE (ue_val e0) w (ue_ao old) (ue_wo old) in
    let s1 := set_map s (<[k := e]> (u_map s)) in
    s2 <-r match ts with
           | Some t => s' <-r set_last_accessed s1 e t; set_last_modified s' e t
           | None => Ok s1
           end;
    s3 <-r move_to_back_ao s2 e;
    s4 <-r match uc_ttl c with Some _ => move_to_back_wo s3 e | None => Ok s3 end;
    Ok (set_ws s4 (sat_add64 (sat_sub (u_ws s4) (ue_weight old)) w))
  end.

Definition u_insert (c : ucfg) (s : ustate) (now k v : N) : res ustate :=
  '(s1, ts) <-r maintain c s now;
  let w := weigh c k v in
  let old := u_map s1 !! k in
  let s2 := set_map s1 (<[k := mkUE v w None None]> (u_map s1)) in
  match old with
  | Some old_e => handle_update c s2 k ts w old_e
  | None => handle_insert c s2 k (uc_hash c k) w ts
  end.

(** ---- get / contains_key / iter ---- *)
Definition u_get (c : ucfg) (s : ustate) (now k : N) : res (ustate * option N) :=
  '(s1, ts) <-r maintain c s now;
  sk' <-r increment (u_sk s1) (uc_hash c k);
  let s2 := set_sk s1 sk' (u_skon s1) in
  match u_map s2 !! k, ts with
  | None, _ => Ok (s2, None)
  | Some e, None => s3 <-r move_to_back_ao s2 e; Ok (s3, Some (ue_val e))
  | Some e, Some t =>
    ex <-r entry_expired c s2 e t;
    if ex then Ok (s2, None)
    else s3 <-r set_last_accessed s2 e t;
         s4 <-r move_to_back_ao s3 e;
         Ok (s4, Some (ue_val e))
  end.

Definition u_contains (c : ucfg) (s : ustate) (now k : N) : res (ustate * bool) :=
  '(s1, ts) <-r maintain c s now;
  match u_map s1 !! k, ts with
  | None, _ => Ok (s1, false)
  | Some _, None => Ok (s1, true)
  | Some e, Some t => ex <-r entry_expired c s1 e t; Ok (s1, negb ex)
  end.

Fixpoint filter_live (c : ucfg) (s : ustate) (now : N) (l : list (N * uentry)) : res (list (N * N)) :=
  match l with
  | [] => Ok []
  | (k, e) :: rest =>
    ex <-r entry_expired c s e now;
    r <-r filter_live c s now rest;
    Ok (if ex then r else (k, ue_val e) :: r)
  end.

(** iter(): no maintenance; yields the unexpired entries (map order; canonicalised by the drivers) *)
Definition u_iter (c : ucfg) (s : ustate) (now : N) : res (list (N * N)) :=
  filter_live c s now (map_to_list (u_map s)).

(** ---- invalidation ---- *)
Definition u_invalidate (c : ucfg) (s : ustate) (now k : N) : res ustate :=
  '(s1, _) <-r maintain c s now;
  match u_map s1 !! k with
  | Some e =>
    s2 <-r unlink_entry (set_map s1 (delete k (u_map s1))) e;
    ec <-r chk_sub (u_ec s2) 1;
    Ok (set_ws (set_ec s2 ec) (sat_sub (u_ws s2) (ue_weight e)))
  | None => Ok s1
  end.

Definition u_invalidate_all (s : ustate) : ustate :=
  mkU ∅ [] [] 0 0 (u_sk s) (u_skon s) (u_next s).

Fixpoint invalidate_keys (s : ustate) (keys : list N) (cnt wt : N) : res (ustate * N * N) :=
  match keys with
  | [] => Ok (s, cnt, wt)
  | k :: rest =>
    match u_map s !! k with
    | Some e =>
      s1 <-r unlink_entry (set_map s (delete k (u_map s))) e;
      invalidate_keys s1 rest (cnt + 1) (sat_add64 wt (ue_weight e))
    | None => invalidate_keys s rest cnt wt
    end
  end.

Definition u_invalidate_if (s : ustate) (p : N -> N -> bool) : res ustate :=
  let keys := (map_to_list (u_map s)).*1 in
  let keys := List.filter (fun k => match u_map s !! k with Some e => p k (ue_val e) | None => false end) keys in
  '(s1, cnt, wt) <-r invalidate_keys s keys 0 0;
  ec <-r chk_sub (u_ec s1) cnt;
  Ok (set_ws (set_ec s1 ec) (sat_sub (u_ws s1) wt)).

(** ---- the step function ---- *)
Inductive uop :=
| UInsert (k v : N)
| UGet (k : N)
| UContains (k : N)
| UIter
| UInvalidate (k : N)
| UInvalidateAll
| UInvalidateIf (p : N -> N -> bool)
| UAdvance (d : N).

Inductive uout :=
| ONone
| OVal (v : option N)
| OBool (b : bool)
| OList (l : list (N * N)).

(** A running cache: state + the clock reading (the clock only moves forward). *)
Record urun := mkURun { ur_state : ustate; ur_now : N }.

Definition ustep (c : ucfg) (r : urun) (o : uop) : res (urun * uout) :=
  let s := ur_state r in
  let now := ur_now r in
  match o with
  | UInsert k v => s' <-r u_insert c s now k v; Ok (mkURun s' now, ONone)
  | UGet k => '(s', v) <-r u_get c s now k; Ok (mkURun s' now, OVal v)
  | UContains k => '(s', b) <-r u_contains c s now k; Ok (mkURun s' now, OBool b)
  | UIter => l <-r u_iter c s now; Ok (r, OList l)
  | UInvalidate k => s' <-r u_invalidate c s now k; Ok (mkURun s' now, ONone)
  | UInvalidateAll => Ok (mkURun (u_invalidate_all s) now, ONone)
  | UInvalidateIf p => s' <-r u_invalidate_if s p; Ok (mkURun s' now, ONone)
  | UAdvance d => Ok (mkURun s (now + d), ONone)
  end.

Fixpoint urun_ops (c : ucfg) (r : urun) (ops : list uop) : res (urun * list uout) :=
  match ops with
  | [] => Ok (r, [])
  | o :: rest =>
    '(r1, out) <-r ustep c r o;
    '(r2, outs) <-r urun_ops c r1 rest;
    Ok (r2, out :: outs)
  end.

Definition urun_init : urun := mkURun u_init 0.
