(** Concrete runs of the sketch model: the hypotheses of the C14 theorems are
    satisfiable on non-trivial data, and the stated quantities have the expected
    values.  Everything here is closed computation. *)
From MM Require Import Sketch.SketchSpec Sketch.SketchProofs.

Definition run_of (r : res sketch) : sketch :=
  match r with Ok s => s | Err _ => sk_empty end.

Lemma run_ok_intro (r : res sketch) (P : sketch -> Prop) :
  is_ok r = true -> P (run_of r) -> exists sk, r = Ok sk /\ P sk.
Proof. destruct r as [sk | e]; [eauto | discriminate]. Qed.

(** ** Geometry of fresh sketches *)
Example fresh_0_geometry :
  sk_sample (fresh 0) = 10 /\ sk_tlen (fresh 0) = 1 /\ sk_mask (fresh 0) = 0.
Proof. vm_compute. auto. Qed.

Example fresh_129_geometry :
  sk_sample (fresh 129) = 1290 /\ sk_tlen (fresh 129) = 256 /\
  sk_mask (fresh 129) = 255.
Proof. vm_compute. auto. Qed.

(** ** A run without aging: key 1 looked up four times among other keys *)
Definition hs1 : list N := [1; 2; 1; 1; 7; 1].

Example run1_ok : is_ok (incr_all (fresh 129) hs1) = true.
Proof. vm_compute. reflexivity. Qed.

Example run1_ok_ex : exists sk, incr_all (fresh 129) hs1 = Ok sk /\ frequency sk 1 = 4
                                /\ frequency sk 2 = 1 /\ frequency sk 7 = 1
                                /\ frequency sk 3 = 0.
Proof. apply run_ok_intro; vm_compute; auto. Qed.

Example run1_ref_count :
  ref_count (fresh 129) 1 0 hs1 = 4 /\ ref_count (fresh 129) 2 0 hs1 = 1 /\
  ref_count (fresh 129) 3 0 hs1 = 0.
Proof. vm_compute. auto. Qed.

Example run1_counters :
  counters_of (fresh 129) 1 = [(191, 4); (137, 5); (58, 6); (22, 7)] /\
  counters_of (fresh 129) 2 = [(67, 8); (107, 9); (196, 10); (31, 11)] /\
  counters_of (fresh 129) 7 = [(213, 12); (217, 13); (119, 14); (79, 15)].
Proof. vm_compute. auto. Qed.

(** the collision-freedom hypothesis of C14_exact_without_collision holds here *)
Example run1_private : has_private_counter (fresh 129) 1 hs1.
Proof.
  exists (191, 4). split.
  - vm_compute. auto.
  - intros h' Hin Hne. unfold hs1 in Hin. cbn [In] in Hin.
    destruct Hin as [<- | [<- | [<- | [<- | [<- | [<- | []]]]]]];
      try (exfalso; apply Hne; reflexivity);
      vm_compute; intros H;
      repeat (destruct H as [H | H]; [discriminate H|]); exact H.
Qed.

(** ... so theorem (6) applies to this run *)
Example run1_exact sk :
  incr_all (fresh 129) hs1 = Ok sk -> frequency sk 1 = 4.
Proof.
  intros H. rewrite (freq_eq_ref_count 129 hs1 1 sk run1_private H).
  vm_compute. reflexivity.
Qed.

(** ** Saturation at 15 *)
Example saturates :
  frequency (run_of (incr_all (fresh 129) (repeat 5 40))) 5 = 15 /\
  ref_count (fresh 129) 5 0 (repeat 5 40) = 15.
Proof. vm_compute. auto. Qed.

(** ** A run with aging: [fresh 0] has sample size 10 and a one-word table *)
Definition hs0 : list N := [1; 1; 1; 1; 1; 1; 1; 1; 1].

Example run0_before :
  exists sk, incr_all (fresh 0) hs0 = Ok sk /\
    frequency sk 1 = 9 /\ sk_size sk = 9 /\
    aged sk 2 = true /\ aged sk 1 = true.
Proof. apply run_ok_intro; vm_compute; auto. Qed.

Example run0_aged :
  exists sk, incr_all (fresh 0) (hs0 ++ [2]) = Ok sk /\
    frequency sk 1 = 4 /\ frequency sk 2 = 0 /\ sk_size sk = 3 /\
    ref_count (fresh 0) 1 0 (hs0 ++ [2]) = 4 /\
    ref_count (fresh 0) 2 0 (hs0 ++ [2]) = 0.
Proof. apply run_ok_intro; vm_compute; auto 10. Qed.

(** in the one-word table, keys 1 and 2 still use disjoint nibbles *)
Example run0_private : has_private_counter (fresh 0) 1 (hs0 ++ [2]).
Proof.
  exists (0, 4). split.
  - vm_compute. auto.
  - intros h' Hin Hne. unfold hs0 in Hin. cbn [In app] in Hin.
    repeat (destruct Hin as [<- | Hin]; [try (exfalso; apply Hne; reflexivity)|]);
      [|destruct Hin].
    vm_compute; intros H;
      repeat (destruct H as [H | H]; [discriminate H|]); exact H.
Qed.

(** the aging step, alone: every estimate is floor-halved *)
Example reset_halves_example :
  exists sk, reset (run_of (incr_all (fresh 0) hs0)) = Ok sk /\
             frequency sk 1 = 4 /\ sk_size sk = 3.
Proof. apply run_ok_intro; vm_compute; auto. Qed.

(** two aging steps in one run *)
Example two_agings :
  let hs := repeat 3 17 in
  is_ok (incr_all (fresh 0) hs) = true /\
  frequency (run_of (incr_all (fresh 0) hs)) 3 = ref_count (fresh 0) 3 0 hs /\
  ref_count (fresh 0) 3 0 hs = 7.
Proof. vm_compute. auto. Qed.

(** ** [ensure_capacity] does NOT preserve [sk_wf] in general: [sk_wf] does not tie the
    kept sampling counter [sk_size] to the sample size chosen by the resize.
    (a) a not-yet-sized sketch ([sk_tlen = 0], first disjunct of [sk_wf], which leaves
        [sk_size] unconstrained); *)
Example ensure_capacity_wf_counterexample_unsized :
  let sk := mkSketch 0 0 0 ∅ 100 in
  sk_wf sk /\ sk_tlen sk = 0 /\ ~ sk_wf (ensure_capacity sk 0).
Proof.
  split; [left; split; reflexivity|]. split; [reflexivity|].
  intros [[H _] | (_ & _ & _ & H & _)]; vm_compute in H; discriminate H.
Qed.

(** (b) a sized, well-formed sketch with a large sample size that is grown to a small
        capacity. *)
Example ensure_capacity_wf_counterexample_sized :
  let sk := mkSketch 2147483647 0 1 ∅ 2000000000 in
  sk_wf sk /\ ~ sk_wf (ensure_capacity sk 2).
Proof.
  split.
  - right. cbn [sk_tlen sk_mask sk_table sk_size sk_sample].
    split; [exists 0; reflexivity|]. split; [reflexivity|].
    split; [intros i w Hi; rewrite lookup_empty in Hi; discriminate|].
    split; [reflexivity | discriminate].
  - intros [[H _] | (_ & _ & _ & H & _)]; vm_compute in H; discriminate H.
Qed.

(** the provable version applies to the default sketch *)
Example ensure_capacity_default cap : sk_wf (ensure_capacity sk_empty cap).
Proof. apply ensure_capacity_wf_fresh; [apply sk_wf_empty | reflexivity | reflexivity]. Qed.
