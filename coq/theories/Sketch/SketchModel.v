(** Bit-level model of src/common/frequency_sketch.rs (FrequencySketch).
    The table is a sparse finite map word-index -> 64-bit word (absent = 0).
    Definitions only. *)
From MM Require Export Base.Prelude Gen.Consts.

Record sketch := mkSketch {
  sk_sample : N;          (* sample_size : u32 *)
  sk_mask   : N;          (* table_mask  : u32 *)
  sk_tlen   : N;          (* table.len() *)
  sk_table  : gmap N N;   (* table, absent = 0 *)
  sk_size   : N           (* size : u32 *)
}.

Definition sk_empty : sketch := mkSketch 0 0 0 ∅ 0.

Definition tget (t : gmap N N) (i : N) : N := default 0 (t !! i).

(** u32::next_power_of_two for 1 <= n <= 2^30 *)
Definition next_pow2 (n : N) : N := 2 ^ N.log2_up n.

(** common::sketch_capacity *)
Definition sketch_capacity (max_capacity : N) : N :=
  N.max (if max_capacity <=? u32_max then max_capacity else u32_max) SKETCH_MIN_CAP.

(** FrequencySketch::ensure_capacity (64-bit target) *)
Definition ensure_capacity (sk : sketch) (cap : N) : sketch :=
  let maximum := N.min cap SKETCH_MAX_CAP in
  let table_size := if maximum =? 0 then 1 else next_pow2 maximum in
  if table_size <=? sk_tlen sk then sk
  else mkSketch
         (if cap =? 0 then 10
          else N.min (sat_mul32 maximum SKETCH_SAMPLE_MUL) 2147483647)
         (table_size - 1) table_size ∅ (sk_size sk).

Definition seed (d : N) : N :=
  match d with 0 => SEED0 | 1 => SEED1 | 2 => SEED2 | _ => SEED3 end.

(** FrequencySketch::index_of *)
Definition index_of (sk : sketch) (h d : N) : N :=
  let s := seed d in
  let h1 := wmul64 (wadd64 h s) s in
  let h2 := wadd64 h1 (N.shiftr h1 32) in
  N.land h2 (sk_mask sk).

(** the counter (nibble) number [c] (0..15) of word [w] *)
Definition nib (w c : N) : N := N.land (N.shiftr w (4 * c)) 15.

Definition hstart (h : N) : N := N.shiftl (N.land h 3) 2.

(** the [i]-th counter of hash [h] *)
Definition counter_of (sk : sketch) (h i : N) : N :=
  nib (tget (sk_table sk) (index_of sk h i)) (hstart h + i).

(** FrequencySketch::frequency *)
Definition frequency (sk : sketch) (h : N) : N :=
  if sk_tlen sk =? 0 then 0
  else N.min (N.min (counter_of sk h 0) (counter_of sk h 1))
             (N.min (counter_of sk h 2) (counter_of sk h 3)).

(** FrequencySketch::increment_at *)
Definition increment_at (t : gmap N N) (idx cidx : N) : gmap N N * bool :=
  let offset := 4 * cidx in
  let mask := N.shiftl 15 offset in
  let w := tget t idx in
  if N.land w mask =? mask then (t, false)
  else (<[idx := w + N.shiftl 1 offset]> t, true).

(** number of set bits *)
Fixpoint pos_popcount (p : positive) : N :=
  match p with
  | xH => 1
  | xO q => pos_popcount q
  | xI q => 1 + pos_popcount q
  end.
Definition popcount (n : N) : N := match n with N0 => 0 | Npos p => pos_popcount p end.

(** FrequencySketch::reset.  [count] is a u32 accumulated with `+=` (checked). *)
Definition reset (sk : sketch) : res sketch :=
  let count := map_fold (fun _ w acc => acc + popcount (N.land w ONE_MASK)) 0 (sk_table sk) in
  if two32 <=? count then Err Overflow
  else
    let t' := (fun w => N.land (N.shiftr w 1) RESET_MASK) <$> sk_table sk in
    Ok (mkSketch (sk_sample sk) (sk_mask sk) (sk_tlen sk) t'
                 (sat_sub (N.shiftr (sk_size sk) 1) (N.shiftr count 2))).

(** FrequencySketch::increment *)
Definition increment (sk : sketch) (h : N) : res sketch :=
  if sk_tlen sk =? 0 then Ok sk
  else
    let st := hstart h in
    let '(t0, a0) := increment_at (sk_table sk) (index_of sk h 0) (st + 0) in
    let '(t1, a1) := increment_at t0 (index_of sk h 1) (st + 1) in
    let '(t2, a2) := increment_at t1 (index_of sk h 2) (st + 2) in
    let '(t3, a3) := increment_at t2 (index_of sk h 3) (st + 3) in
    let sk' := mkSketch (sk_sample sk) (sk_mask sk) (sk_tlen sk) t3 (sk_size sk) in
    if a0 || a1 || a2 || a3 then
      size' <-r chk_add32 (sk_size sk) 1;
      let sk'' := mkSketch (sk_sample sk) (sk_mask sk) (sk_tlen sk) t3 size' in
      if sk_sample sk <=? size' then reset sk'' else Ok sk''
    else Ok sk'.

(** Operations of the facade (harness `sketch` mode). *)
Inductive skop :=
| SkEnsure (cap : N)
| SkIncr (h : N)
| SkFreq (h : N).

Definition sk_step (sk : sketch) (o : skop) : res (sketch * option N) :=
  match o with
  | SkEnsure cap => Ok (ensure_capacity sk cap, None)
  | SkIncr h => sk' <-r increment sk h; Ok (sk', None)
  | SkFreq h => Ok (sk, Some (frequency sk h))
  end.

Fixpoint sk_run (sk : sketch) (ops : list skop) : res sketch :=
  match ops with
  | [] => Ok sk
  | o :: r => '(sk', _) <-r sk_step sk o; sk_run sk' r
  end.
