(** Specification-side definitions for the popularity estimator (property C14).
    Definitions only; the proofs are in SketchProofs.v. *)
From MM Require Export Sketch.SketchModel.

(** Well-formed sketch: either the default (empty) one, or a power-of-two table with
    the matching mask, 64-bit words at indices below the table length, and the
    sampling counter below the sample size. *)
Definition sk_wf (sk : sketch) : Prop :=
  (sk_tlen sk = 0 /\ sk_table sk = ∅) \/
  ((exists j, sk_tlen sk = 2 ^ j) /\
   sk_mask sk = sk_tlen sk - 1 /\
   (forall i w, sk_table sk !! i = Some w -> i < sk_tlen sk /\ w < two64) /\
   sk_size sk < sk_sample sk /\
   sk_sample sk <= 2147483647).

(** [aged sk h]: does [increment sk h] run the aging step (reset)? *)
Definition aged (sk : sketch) (h : N) : bool :=
  if sk_tlen sk =? 0 then false
  else
    let st := hstart h in
    let '(t0, a0) := increment_at (sk_table sk) (index_of sk h 0) (st + 0) in
    let '(t1, a1) := increment_at t0 (index_of sk h 1) (st + 1) in
    let '(t2, a2) := increment_at t1 (index_of sk h 2) (st + 2) in
    let '(_, a3) := increment_at t2 (index_of sk h 3) (st + 3) in
    (a0 || a1 || a2 || a3) && (sk_sample sk <=? sk_size sk + 1).

(** Runs a list of increments. *)
Fixpoint incr_all (sk : sketch) (hs : list N) : res sketch :=
  match hs with
  | [] => Ok sk
  | h :: r => sk' <-r increment sk h; incr_all sk' r
  end.

(** The property's reference count of [h] over the recorded lookups [hs] started in
    [sk]: +1 per recorded lookup of [h] saturating at 15, floor-halved by every
    aging step (whoever's lookup triggered it). *)
Fixpoint ref_count (sk : sketch) (h : N) (c : N) (hs : list N) : N :=
  match hs with
  | [] => c
  | h' :: r =>
    let c1 := if h' =? h then N.min (c + 1) 15 else c in
    let c2 := if aged sk h' then c1 / 2 else c1 in
    match increment sk h' with
    | Ok sk' => ref_count sk' h c2 r
    | Err _ => c2
    end
  end.

(** The four (word index, nibble index) counters of a hash. *)
Definition counters_of (sk : sketch) (h : N) : list (N * N) :=
  [ (index_of sk h 0, hstart h + 0); (index_of sk h 1, hstart h + 1);
    (index_of sk h 2, hstart h + 2); (index_of sk h 3, hstart h + 3) ].

(** Some counter of [h] is touched by no other recorded hash. *)
Definition has_private_counter (sk : sketch) (h : N) (hs : list N) : Prop :=
  exists c, In c (counters_of sk h) /\
    forall h', In h' hs -> h' <> h -> ~ In c (counters_of sk h').

(** A freshly sized sketch: what the caches use (ensure_capacity on the default). *)
Definition fresh (cap : N) : sketch := ensure_capacity sk_empty cap.
