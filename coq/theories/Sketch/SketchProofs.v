(** Proofs about the bit-level frequency-sketch model (property C14).
    Statements used by Properties/C14.v: frequency_le_15, fresh_wf, index_of_lt,
    increment_ok, freq_ge_ref_count, freq_eq_ref_count, increment_no_age_mono,
    reset_halves_frequency, increment_aged_is_reset. *)
From Coq Require Import Lia ZifyN ZifyBool.
From MM Require Import Sketch.SketchSpec.

Local Ltac divmod_lia :=
  Z.div_mod_to_equations; lia.

(* ------------------------------------------------------------------ *)
(** * Nibble arithmetic *)

Lemma pow2_ne0 n : 2 ^ n <> 0.
Proof. apply N.pow_nonzero. discriminate. Qed.

Lemma pow2_pos n : 0 < 2 ^ n.
Proof. pose proof (pow2_ne0 n). lia. Qed.

Lemma nib_eq w c : nib w c = (w / 2 ^ (4 * c)) mod 16.
Proof.
  unfold nib. rewrite N.shiftr_div_pow2.
  change 15 with (N.ones 4). rewrite N.land_ones. reflexivity.
Qed.

Lemma nib_le w c : nib w c <= 15.
Proof.
  rewrite nib_eq.
  pose proof (N.mod_upper_bound (w / 2 ^ (4 * c)) 16). lia.
Qed.

Lemma shiftl1 o : N.shiftl 1 o = 2 ^ o.
Proof. rewrite N.shiftl_mul_pow2. lia. Qed.

(** the saturation test of [increment_at] *)
Lemma land_mask_nib w c :
  N.land w (N.shiftl 15 (4 * c)) = N.shiftl (nib w c) (4 * c).
Proof.
  unfold nib. apply N.bits_inj. intros i.
  rewrite N.land_spec.
  destruct (N.lt_ge_cases i (4 * c)) as [Hlt | Hge].
  - rewrite !N.shiftl_spec_low by assumption. apply andb_false_r.
  - rewrite !N.shiftl_spec_high' by assumption.
    rewrite N.land_spec, N.shiftr_spec'.
    replace (i - 4 * c + 4 * c) with i by lia. reflexivity.
Qed.

Lemma sat_test w c :
  (N.land w (N.shiftl 15 (4 * c)) =? N.shiftl 15 (4 * c)) = (nib w c =? 15).
Proof.
  rewrite land_mask_nib, !N.shiftl_mul_pow2.
  pose proof (pow2_ne0 (4 * c)) as Hp.
  destruct (nib w c =? 15) eqn:E.
  - apply N.eqb_eq in E. rewrite E. apply N.eqb_refl.
  - apply N.eqb_neq in E. apply N.eqb_neq. intros Heq.
    apply N.mul_cancel_r in Heq; auto.
Qed.

Lemma nib_add_same w c :
  nib w c < 15 -> nib (w + 2 ^ (4 * c)) c = nib w c + 1.
Proof.
  rewrite !nib_eq. intros Hlt.
  replace (w + 2 ^ (4 * c)) with (w + 1 * 2 ^ (4 * c)) by lia.
  rewrite N.div_add by apply pow2_ne0.
  set (q := w / 2 ^ (4 * c)) in *. clearbody q.
  zify. divmod_lia.
Qed.

Lemma nib_add_low w c c' :
  c' < c -> nib (w + 2 ^ (4 * c)) c' = nib w c'.
Proof.
  intros Hlt. rewrite !nib_eq.
  replace (4 * c) with (4 * (c - c' - 1) + 4 + 4 * c') by lia.
  rewrite !N.pow_add_r.
  set (k := 2 ^ (4 * (c - c' - 1))). set (a := 2 ^ (4 * c')).
  change (2 ^ 4) with 16.
  replace (w + k * 16 * a) with (w + (k * 16) * a) by lia.
  rewrite N.div_add by apply pow2_ne0.
  rewrite N.mod_add by discriminate. reflexivity.
Qed.

Lemma nib_add_high w c c' :
  c < c' -> nib w c < 15 -> nib (w + 2 ^ (4 * c)) c' = nib w c'.
Proof.
  intros Hlt. rewrite !nib_eq. intros Hn.
  replace (4 * c') with (4 * c + (4 + 4 * (c' - c - 1))) by lia.
  rewrite (N.pow_add_r 2 (4 * c)).
  rewrite <- !N.div_div by apply pow2_ne0.
  replace (w + 2 ^ (4 * c)) with (w + 1 * 2 ^ (4 * c)) at 1 by lia.
  rewrite N.div_add by apply pow2_ne0.
  set (q := w / 2 ^ (4 * c)) in *. clearbody q.
  rewrite N.pow_add_r. change (2 ^ 4) with 16.
  rewrite <- !N.div_div by (try apply pow2_ne0; discriminate).
  replace ((q + 1) / 16) with (q / 16); [reflexivity|].
  zify. divmod_lia.
Qed.

Lemma word_add_bound w c :
  w < two64 -> c < 16 -> nib w c < 15 -> w + 2 ^ (4 * c) < two64.
Proof.
  intros Hw Hc. rewrite nib_eq. intros Hn.
  assert (H64 : two64 = 16 * 2 ^ (60 - 4 * c) * 2 ^ (4 * c)).
  { change two64 with (2 ^ 64). change 16 with (2 ^ 4).
    rewrite <- !N.pow_add_r. f_equal. lia. }
  set (a := 2 ^ (4 * c)) in *. set (b := 2 ^ (60 - 4 * c)) in *.
  assert (Ha : a <> 0) by apply pow2_ne0.
  pose proof (N.div_mod w a Ha) as Hdm.
  pose proof (N.mod_upper_bound w a Ha) as Hr.
  set (q := w / a) in *. set (r := w mod a) in *. clearbody q r.
  assert (Hq : q < 16 * b).
  { apply N.nle_gt. intros Hle.
    assert (16 * b * a <= q * a) by (apply N.mul_le_mono_r; assumption). lia. }
  assert (Hq2 : q + 2 <= 16 * b) by (zify; divmod_lia).
  assert ((q + 2) * a <= 16 * b * a) by (apply N.mul_le_mono_r; assumption).
  lia.
Qed.

(** nibbles of the aging step *)
Lemma lt16_cases c : c < 16 ->
  c = 0 \/ c = 1 \/ c = 2 \/ c = 3 \/ c = 4 \/ c = 5 \/ c = 6 \/ c = 7 \/
  c = 8 \/ c = 9 \/ c = 10 \/ c = 11 \/ c = 12 \/ c = 13 \/ c = 14 \/ c = 15.
Proof. lia. Qed.

Lemma reset_mask_nib c : c < 16 -> N.land (N.shiftr RESET_MASK (4 * c)) 15 = 7.
Proof.
  intros Hc. apply lt16_cases in Hc.
  repeat (destruct Hc as [-> | Hc]; [vm_compute; reflexivity|]).
  subst c. vm_compute. reflexivity.
Qed.

Lemma nib_reset w c :
  c < 16 -> nib (N.land (N.shiftr w 1) RESET_MASK) c = nib w c / 2.
Proof.
  intros Hc. unfold nib at 1.
  rewrite N.shiftr_land, <- N.land_assoc, reset_mask_nib by assumption.
  rewrite N.shiftr_shiftr.
  rewrite nib_eq.
  change 7 with (N.ones 3). rewrite N.land_ones.
  replace (1 + 4 * c) with (4 * c + 1) by lia.
  rewrite <- N.shiftr_shiftr, !N.shiftr_div_pow2.
  set (q := w / 2 ^ (4 * c)). clearbody q.
  change (2 ^ 1) with 2. change (2 ^ 3) with 8.
  zify. divmod_lia.
Qed.

Lemma reset_word_bound w : N.land (N.shiftr w 1) RESET_MASK < two64.
Proof.
  change RESET_MASK with (N.land RESET_MASK (N.ones 64)).
  rewrite N.land_assoc, N.land_ones.
  apply N.mod_upper_bound. discriminate.
Qed.

(* ------------------------------------------------------------------ *)
(** * Popcount and the odd-counter accumulator of [reset] *)

Lemma popcount_double n : popcount (Pos.Ndouble n) = popcount n.
Proof. destruct n; reflexivity. Qed.

Lemma popcount_succ_double n : popcount (Pos.Nsucc_double n) = 1 + popcount n.
Proof. destruct n; reflexivity. Qed.

Lemma pos_popcount_land : forall p q, popcount (Pos.land p q) <= pos_popcount q.
Proof.
  induction p as [p IH | p IH |]; intros [q | q |]; cbn [Pos.land pos_popcount];
    rewrite ?popcount_double, ?popcount_succ_double;
    try (specialize (IH q)); cbn [popcount pos_popcount]; lia.
Qed.

Lemma popcount_land a b : popcount (N.land a b) <= popcount b.
Proof.
  destruct a as [|p]; [rewrite N.land_0_l; cbn; lia|].
  destruct b as [|q]; [rewrite N.land_0_r; cbn; lia|].
  change (N.land (N.pos p) (N.pos q)) with (Pos.land p q).
  apply pos_popcount_land.
Qed.

Lemma popcount_one_mask w : popcount (N.land w ONE_MASK) <= 16.
Proof. apply (popcount_land w ONE_MASK). Qed.

Lemma pos_popcount_lor : forall p q,
  pos_popcount (Pos.lor p q) <= pos_popcount p + pos_popcount q.
Proof.
  induction p as [p IH | p IH |]; intros [q | q |]; cbn [Pos.lor pos_popcount];
    try (specialize (IH q)); lia.
Qed.

Lemma popcount_lor a b : popcount (N.lor a b) <= popcount a + popcount b.
Proof.
  destruct a as [|p]; [rewrite N.lor_0_l; cbn; lia|].
  destruct b as [|q]; [rewrite N.lor_0_r; cbn; lia|].
  change (N.lor (N.pos p) (N.pos q)) with (N.pos (Pos.lor p q)).
  cbn [popcount]. apply pos_popcount_lor.
Qed.

Lemma pos_popcount_ldiff : forall p q, popcount (Pos.ldiff p q) <= pos_popcount p.
Proof.
  induction p as [p IH | p IH |]; intros [q | q |]; cbn [Pos.ldiff pos_popcount];
    rewrite ?popcount_double, ?popcount_succ_double;
    try (specialize (IH q)); cbn [popcount pos_popcount]; lia.
Qed.

Lemma popcount_ldiff a b : popcount (N.ldiff a b) <= popcount a.
Proof.
  destruct a as [|p]; [rewrite N.ldiff_0_l; cbn; lia|].
  destruct b as [|q]; [rewrite N.ldiff_0_r; cbn; lia|].
  change (N.ldiff (N.pos p) (N.pos q)) with (Pos.ldiff p q).
  apply pos_popcount_ldiff.
Qed.

Lemma popcount_pow2 o : popcount (2 ^ o) = 1.
Proof.
  induction o as [|o IH] using N.peano_ind; [reflexivity|].
  rewrite N.pow_succ_r'. destruct (2 ^ o) as [|p]; [discriminate IH|].
  exact IH.
Qed.

Lemma lor_ldiff_land a p : a = N.lor (N.ldiff a p) (N.land a p).
Proof.
  apply N.bits_inj. intros i. rewrite N.lor_spec, N.ldiff_spec, N.land_spec.
  destruct (N.testbit a i), (N.testbit p i); reflexivity.
Qed.

(** the number of odd counters of a word *)
Definition pc1 (w : N) : N := popcount (N.land w ONE_MASK).

Lemma testbit15 k : k < 4 -> N.testbit 15 k = true.
Proof.
  intros Hk. assert (H : k = 0 \/ k = 1 \/ k = 2 \/ k = 3) by lia.
  destruct H as [-> | [-> | [-> | ->]]]; reflexivity.
Qed.

Lemma nib_testbit w c k : k < 4 -> N.testbit (nib w c) k = N.testbit w (4 * c + k).
Proof.
  intros Hk. unfold nib. rewrite N.land_spec, N.shiftr_spec', testbit15 by assumption.
  rewrite andb_true_r. f_equal. lia.
Qed.

Lemma testbit_add_outside w c i :
  nib w c < 15 -> ~ (4 * c <= i < 4 * c + 4) ->
  N.testbit (w + 2 ^ (4 * c)) i = N.testbit w i.
Proof.
  intros Hn Hout.
  pose proof (N.div_mod i 4 ltac:(discriminate)) as Hi.
  pose proof (N.mod_upper_bound i 4 ltac:(discriminate)) as Hk.
  set (c' := i / 4) in *. set (k := i mod 4) in *. clearbody c' k.
  rewrite Hi, <- !nib_testbit by assumption. f_equal.
  destruct (N.lt_ge_cases c' c).
  - apply nib_add_low. assumption.
  - apply nib_add_high; [lia | assumption].
Qed.

Lemma one_mask_nib c : c < 16 -> nib ONE_MASK c = 1.
Proof.
  intros Hc. apply lt16_cases in Hc.
  repeat (destruct Hc as [-> | Hc]; [vm_compute; reflexivity|]).
  subst c. vm_compute. reflexivity.
Qed.

(** bumping one unsaturated counter adds at most one odd counter *)
Lemma pc1_add w c :
  c < 16 -> nib w c < 15 -> pc1 (w + 2 ^ (4 * c)) <= pc1 w + 1.
Proof.
  intros Hc Hn. unfold pc1.
  set (P := N.shiftl 15 (4 * c)).
  rewrite (lor_ldiff_land (N.land (w + 2 ^ (4 * c)) ONE_MASK) P).
  eapply N.le_trans; [apply popcount_lor|].
  assert (A : N.ldiff (N.land (w + 2 ^ (4 * c)) ONE_MASK) P =
              N.ldiff (N.land w ONE_MASK) P).
  { apply N.bits_inj. intros i. rewrite !N.ldiff_spec, !N.land_spec.
    destruct (N.testbit P i) eqn:EP; cbn [negb]; [rewrite !andb_false_r; reflexivity|].
    rewrite testbit_add_outside; [reflexivity | assumption |].
    intros [H1 H2]. unfold P in EP.
    rewrite N.shiftl_spec_high', testbit15 in EP by lia. discriminate. }
  assert (B : popcount (N.land (N.land (w + 2 ^ (4 * c)) ONE_MASK) P) <= 1).
  { rewrite <- N.land_assoc. eapply N.le_trans; [apply popcount_land|].
    unfold P. rewrite land_mask_nib, one_mask_nib, shiftl1, popcount_pow2 by assumption.
    lia. }
  rewrite A. pose proof (popcount_ldiff (N.land w ONE_MASK) P). lia.
Qed.

Definition odd_count (t : gmap N N) : N :=
  map_fold (fun (_ : N) w acc => acc + popcount (N.land w ONE_MASK)) 0 t.

Lemma odd_count_bound n : forall t : gmap N N,
  (forall i w, t !! i = Some w -> i < n) -> odd_count t <= 16 * n.
Proof.
  induction n as [|n IH] using N.peano_ind; intros t Hk.
  - assert (t = ∅) as ->.
    { apply map_empty. intros i. destruct (t !! i) eqn:E; auto.
      apply Hk in E. lia. }
    unfold odd_count. rewrite map_fold_empty. lia.
  - destruct (t !! n) as [w|] eqn:E.
    + rewrite <- (insert_delete t n w E).
      unfold odd_count. rewrite map_fold_insert_L.
      * fold (odd_count (delete n t)).
        assert (odd_count (delete n t) <= 16 * n).
        { apply IH. intros i w' Hi. apply lookup_delete_Some in Hi as [Hne Hi].
          apply Hk in Hi. lia. }
        pose proof (popcount_one_mask w). lia.
      * intros. lia.
      * apply lookup_delete.
    + assert (odd_count t <= 16 * n); [|lia].
      apply IH. intros i w Hi.
      assert (i <> n) by (intros ->; congruence).
      apply Hk in Hi. lia.
Qed.

(* ------------------------------------------------------------------ *)
(** * Tables: reading a counter, one [increment_at] *)

Definition cnt (t : gmap N N) (x y : N) : N := nib (tget t x) y.

Lemma cnt_le t x y : cnt t x y <= 15.
Proof. apply nib_le. Qed.

Lemma tget_insert t i w j : tget (<[i:=w]> t) j = if j =? i then w else tget t j.
Proof.
  unfold tget. destruct (j =? i) eqn:E.
  - apply N.eqb_eq in E. subst. rewrite lookup_insert. reflexivity.
  - apply N.eqb_neq in E. rewrite lookup_insert_ne by auto. reflexivity.
Qed.

Lemma tget_fmap (f : N -> N) t i : f 0 = 0 -> tget (f <$> t) i = f (tget t i).
Proof.
  intros Hf. unfold tget. rewrite lookup_fmap.
  destruct (t !! i); cbn; auto.
Qed.

Lemma increment_at_eq t idx c :
  increment_at t idx c =
  if cnt t idx c =? 15 then (t, false)
  else (<[idx := tget t idx + 2 ^ (4 * c)]> t, true).
Proof.
  unfold increment_at, cnt. cbv zeta. rewrite sat_test, shiftl1. reflexivity.
Qed.

(** The one-step transfer function on a counter value. *)
Definition bump1 (hit : bool) (v : N) : N := if hit then N.min (v + 1) 15 else v.

Lemma increment_at_cnt t idx c x y :
  cnt (fst (increment_at t idx c)) x y =
  bump1 ((x =? idx) && (y =? c)) (cnt t x y).
Proof.
  rewrite increment_at_eq. unfold bump1.
  destruct (cnt t idx c =? 15) eqn:E15; cbn [fst].
  - apply N.eqb_eq in E15.
    destruct (x =? idx) eqn:Ex; cbn [andb]; auto.
    destruct (y =? c) eqn:Ey; auto.
    apply N.eqb_eq in Ex, Ey. subst. rewrite E15. reflexivity.
  - apply N.eqb_neq in E15.
    pose proof (cnt_le t idx c) as Hle.
    unfold cnt in *. rewrite tget_insert.
    destruct (x =? idx) eqn:Ex; cbn [andb]; auto.
    apply N.eqb_eq in Ex. subst x.
    destruct (y =? c) eqn:Ey.
    + apply N.eqb_eq in Ey. subst y.
      rewrite nib_add_same by lia. lia.
    + apply N.eqb_neq in Ey.
      destruct (N.lt_ge_cases y c).
      * apply nib_add_low. assumption.
      * apply nib_add_high; lia.
Qed.

(** table well-formedness (the third conjunct of [sk_wf]) *)
Definition twf (n : N) (t : gmap N N) : Prop :=
  forall i w, t !! i = Some w -> i < n /\ w < two64.

Lemma twf_tget n t i : twf n t -> tget t i < two64.
Proof.
  intros Ht. unfold tget. destruct (t !! i) as [w|] eqn:E; cbn.
  - apply Ht in E. tauto.
  - reflexivity.
Qed.

Lemma increment_at_twf n t idx c :
  twf n t -> idx < n -> c < 16 -> twf n (fst (increment_at t idx c)).
Proof.
  intros Ht Hidx Hc. rewrite increment_at_eq.
  destruct (cnt t idx c =? 15) eqn:E15; cbn [fst]; auto.
  apply N.eqb_neq in E15. pose proof (cnt_le t idx c).
  intros i w Hi. destruct (N.eq_dec i idx) as [->|Hne].
  - rewrite lookup_insert in Hi. injection Hi as <-. split; auto.
    apply word_add_bound; auto.
    + eapply twf_tget; eauto.
    + unfold cnt in *. lia.
  - rewrite lookup_insert_ne in Hi by auto. eauto.
Qed.

(** the odd-counter accumulator and the number of words under insertion *)
Lemma odd_count_insert_None (t : gmap N N) i w :
  t !! i = None -> odd_count (<[i:=w]> t) = odd_count t + pc1 w.
Proof.
  intros Hi. unfold odd_count. rewrite map_fold_insert_L; [reflexivity | | assumption].
  intros. lia.
Qed.

Lemma odd_count_insert (t : gmap N N) i w :
  odd_count (<[i:=w]> t) + pc1 (tget t i) = odd_count t + pc1 w.
Proof.
  unfold tget. destruct (t !! i) as [w0|] eqn:E; cbn [default].
  - pose proof (insert_delete t i w0 E) as Ht. rewrite <- Ht.
    rewrite insert_insert.
    rewrite !odd_count_insert_None by apply lookup_delete. unfold id. lia.
  - rewrite odd_count_insert_None by assumption. change (pc1 0) with 0. lia.
Qed.

Lemma odd_count_le_size (t : gmap N N) : odd_count t <= 16 * N.of_nat (size t).
Proof.
  unfold odd_count.
  apply (map_fold_ind (fun r (m : gmap N N) => r <= 16 * N.of_nat (size m))).
  - rewrite map_size_empty. lia.
  - intros i x m r Hi IH. rewrite map_size_insert_None by assumption.
    pose proof (popcount_one_mask x). lia.
Qed.

Lemma size_insert_le (t : gmap N N) i w :
  N.of_nat (size (<[i:=w]> t)) <= N.of_nat (size t) + 1.
Proof. rewrite map_size_insert. destruct (t !! i); cbn; lia. Qed.

(** pigeonhole: a table whose keys are below [n] has at most [n] words *)
Lemma twf_size n : forall t : gmap N N,
  (forall i w, t !! i = Some w -> i < n) -> N.of_nat (size t) <= n.
Proof.
  induction n as [|n IH] using N.peano_ind; intros t Hk.
  - assert (t = ∅) as ->.
    { apply map_empty. intros i. destruct (t !! i) eqn:E; auto.
      apply Hk in E. lia. }
    rewrite map_size_empty. lia.
  - assert (Hd : N.of_nat (size (delete n t)) <= n).
    { apply IH. intros i w' Hi. apply lookup_delete_Some in Hi as [Hne Hi].
      apply Hk in Hi. lia. }
    rewrite map_size_delete in Hd. destruct (t !! n); cbn in Hd; lia.
Qed.

Lemma increment_at_load t idx c :
  c < 16 ->
  odd_count (fst (increment_at t idx c)) <= odd_count t + 1 /\
  N.of_nat (size (fst (increment_at t idx c))) <= N.of_nat (size t) + 1.
Proof.
  intros Hc. rewrite increment_at_eq.
  destruct (cnt t idx c =? 15) eqn:E15; cbn [fst]; [lia|].
  apply N.eqb_neq in E15. pose proof (cnt_le t idx c) as Hle. unfold cnt in *.
  split; [|apply size_insert_le].
  pose proof (odd_count_insert t idx (tget t idx + 2 ^ (4 * c))).
  pose proof (pc1_add (tget t idx) c Hc ltac:(lia)). lia.
Qed.

(* ------------------------------------------------------------------ *)
(** * Geometry: [index_of], [hstart], [counters_of] depend on the mask only *)

Lemma index_of_mask sk sk' h d :
  sk_mask sk' = sk_mask sk -> index_of sk' h d = index_of sk h d.
Proof. intros Hm. unfold index_of. rewrite Hm. reflexivity. Qed.

Lemma counters_of_mask sk sk' h :
  sk_mask sk' = sk_mask sk -> counters_of sk' h = counters_of sk h.
Proof.
  intros Hm. unfold counters_of. rewrite !(index_of_mask sk sk') by assumption.
  reflexivity.
Qed.

Lemma hstart_le h : hstart h <= 12.
Proof.
  unfold hstart. rewrite N.shiftl_mul_pow2.
  change 3 with (N.ones 2). rewrite N.land_ones.
  change (2 ^ 2) with 4.
  pose proof (N.mod_upper_bound h 4). lia.
Qed.

Lemma index_of_lt sk h d :
  sk_wf sk -> 0 < sk_tlen sk -> index_of sk h d < sk_tlen sk.
Proof.
  intros [[H0 _] | [[j Hj] [Hm _]]] Hpos; [lia|].
  unfold index_of. cbv zeta. rewrite Hm, Hj.
  replace (2 ^ j - 1) with (N.ones j).
  - rewrite N.land_ones. apply N.mod_upper_bound. apply pow2_ne0.
  - rewrite N.ones_equiv. lia.
Qed.

(** frequency in terms of [cnt] *)
Definition freq4 (t : gmap N N) (sk : sketch) (h : N) : N :=
  N.min (N.min (cnt t (index_of sk h 0) (hstart h + 0))
               (cnt t (index_of sk h 1) (hstart h + 1)))
        (N.min (cnt t (index_of sk h 2) (hstart h + 2))
               (cnt t (index_of sk h 3) (hstart h + 3))).

Lemma frequency_eq sk h :
  frequency sk h = if sk_tlen sk =? 0 then 0 else freq4 (sk_table sk) sk h.
Proof. reflexivity. Qed.

Lemma frequency_le_15 sk h : frequency sk h <= 15.
Proof.
  rewrite frequency_eq. destruct (sk_tlen sk =? 0); [lia|].
  unfold freq4.
  pose proof (cnt_le (sk_table sk) (index_of sk h 0) (hstart h + 0)). lia.
Qed.

(* ------------------------------------------------------------------ *)
(** * [fresh] *)

Lemma fresh_wf cap : sk_wf (fresh cap) /\ 0 < sk_tlen (fresh cap).
Proof.
  unfold fresh, ensure_capacity. cbv zeta.
  set (maximum := N.min cap SKETCH_MAX_CAP).
  set (ts := if maximum =? 0 then 1 else next_pow2 maximum).
  assert (Hts : exists j, ts = 2 ^ j).
  { unfold ts. destruct (maximum =? 0).
    - exists 0. reflexivity.
    - eexists. reflexivity. }
  assert (Hpos : 0 < ts).
  { destruct Hts as [j ->]. apply pow2_pos. }
  change (sk_tlen sk_empty) with 0.
  destruct (ts <=? 0) eqn:E; [apply N.leb_le in E; lia|].
  cbn [sk_tlen]. split; [|assumption].
  right. cbn [sk_tlen sk_mask sk_table sk_size sk_sample sk_empty].
  split; [assumption|]. split; [reflexivity|].
  split; [intros i w Hi; rewrite lookup_empty in Hi; discriminate|].
  destruct (cap =? 0) eqn:Ec.
  - split; [reflexivity | discriminate].
  - apply N.eqb_neq in Ec. split; [|apply N.le_min_r].
    unfold sat_mul32, u32_max, SKETCH_SAMPLE_MUL, maximum, SKETCH_MAX_CAP. lia.
Qed.

(* ------------------------------------------------------------------ *)
(** * The four [increment_at] of one recording *)

Definition step4 (sk : sketch) (h : N) : gmap N N * bool :=
  let st := hstart h in
  let '(t0, a0) := increment_at (sk_table sk) (index_of sk h 0) (st + 0) in
  let '(t1, a1) := increment_at t0 (index_of sk h 1) (st + 1) in
  let '(t2, a2) := increment_at t1 (index_of sk h 2) (st + 2) in
  let '(t3, a3) := increment_at t2 (index_of sk h 3) (st + 3) in
  (t3, a0 || a1 || a2 || a3).

(** the sketch after recording [h], before any aging *)
Definition mid (sk : sketch) (h : N) : sketch :=
  mkSketch (sk_sample sk) (sk_mask sk) (sk_tlen sk) (fst (step4 sk h))
           (if snd (step4 sk h) then sk_size sk + 1 else sk_size sk).

Lemma aged_eq sk h :
  aged sk h =
  if sk_tlen sk =? 0 then false
  else snd (step4 sk h) && (sk_sample sk <=? sk_size sk + 1).
Proof.
  unfold aged, step4. cbv zeta.
  destruct (sk_tlen sk =? 0); [reflexivity|].
  destruct (increment_at _ _ _) as [t0 a0].
  destruct (increment_at _ _ _) as [t1 a1].
  destruct (increment_at _ _ _) as [t2 a2].
  destruct (increment_at _ _ _) as [t3 a3].
  reflexivity.
Qed.

Lemma increment_eq sk h :
  increment sk h =
  if sk_tlen sk =? 0 then Ok sk
  else if snd (step4 sk h) && negb (sk_size sk + 1 <? two32) then Err Overflow
  else if aged sk h then reset (mid sk h) else Ok (mid sk h).
Proof.
  rewrite aged_eq. unfold increment, mid, step4. cbv zeta.
  destruct (sk_tlen sk =? 0); [reflexivity|].
  destruct (increment_at _ _ _) as [t0 a0].
  destruct (increment_at _ _ _) as [t1 a1].
  destruct (increment_at _ _ _) as [t2 a2].
  destruct (increment_at _ _ _) as [t3 a3].
  cbn [fst snd].
  destruct (a0 || a1 || a2 || a3); cbn [andb]; [|reflexivity].
  unfold chk_add32.
  destruct (sk_size sk + 1 <? two32); cbn [negb rbind]; [|reflexivity].
  destruct (sk_sample sk <=? sk_size sk + 1); reflexivity.
Qed.

Lemma increment_mid sk h :
  sk_tlen sk <> 0 ->
  (sk_size sk + 1 < two32 \/ exists sk', increment sk h = Ok sk') ->
  increment sk h = if aged sk h then reset (mid sk h) else Ok (mid sk h).
Proof.
  intros Hlen Hor. rewrite increment_eq in *.
  apply N.eqb_neq in Hlen. rewrite Hlen in *.
  destruct (snd (step4 sk h) && negb (sk_size sk + 1 <? two32)) eqn:E; [|reflexivity].
  exfalso. destruct Hor as [Hlt | [sk' Hsk']]; [|discriminate].
  apply N.ltb_lt in Hlt. rewrite Hlt in E.
  destruct (snd (step4 sk h)); discriminate.
Qed.

(** counter values after the four steps *)
Lemma step4_cnt sk h x y :
  cnt (fst (step4 sk h)) x y =
  bump1 ((x =? index_of sk h 3) && (y =? hstart h + 3))
   (bump1 ((x =? index_of sk h 2) && (y =? hstart h + 2))
    (bump1 ((x =? index_of sk h 1) && (y =? hstart h + 1))
     (bump1 ((x =? index_of sk h 0) && (y =? hstart h + 0))
       (cnt (sk_table sk) x y)))).
Proof.
  unfold step4. cbv zeta.
  rewrite <- !increment_at_cnt.
  destruct (increment_at _ _ _) as [t0 a0]. cbn [fst].
  destruct (increment_at _ _ _) as [t1 a1]. cbn [fst].
  destruct (increment_at _ _ _) as [t2 a2]. cbn [fst].
  destruct (increment_at _ _ _) as [t3 a3]. reflexivity.
Qed.

Lemma step4_cnt_ge sk h x y :
  cnt (sk_table sk) x y <= cnt (fst (step4 sk h)) x y.
Proof.
  rewrite step4_cnt. pose proof (cnt_le (sk_table sk) x y).
  unfold bump1.
  repeat match goal with |- context [if ?b then _ else _] => destruct b end; lia.
Qed.

Lemma hit_false (x y a b : N) : (a, b) <> (x, y) -> (x =? a) && (y =? b) = false.
Proof.
  intros Hne. apply andb_false_iff.
  destruct (x =? a) eqn:Ex; [right | left; reflexivity].
  apply N.eqb_eq in Ex. apply N.eqb_neq. intros Hy. apply Hne. congruence.
Qed.

Lemma step4_cnt_other sk h x y :
  ~ In (x, y) (counters_of sk h) ->
  cnt (fst (step4 sk h)) x y = cnt (sk_table sk) x y.
Proof.
  intros Hnin. rewrite step4_cnt. unfold counters_of in Hnin. cbn [In] in Hnin.
  rewrite !hit_false by (intros E; apply Hnin; rewrite E;
                         repeat (first [left; reflexivity | right])).
  reflexivity.
Qed.

Lemma step4_cnt_self sk h x y :
  In (x, y) (counters_of sk h) ->
  cnt (fst (step4 sk h)) x y = N.min (cnt (sk_table sk) x y + 1) 15.
Proof.
  intros Hin. rewrite step4_cnt.
  pose proof (cnt_le (sk_table sk) x y) as Hle.
  unfold counters_of in Hin. cbn [In] in Hin.
  destruct Hin as [Hin | [Hin | [Hin | [Hin | []]]]]; injection Hin as <- <-;
    rewrite !N.eqb_refl; cbn [andb];
    repeat match goal with
    | |- context [?a + ?i =? ?a + ?j] =>
        lazymatch i with
        | j => fail
        | _ => replace (a + i =? a + j) with false by (symmetry; apply N.eqb_neq; lia)
        end
    end;
    rewrite ?andb_false_r; unfold bump1; lia.
Qed.

Lemma step4_twf sk h :
  sk_wf sk -> 0 < sk_tlen sk -> twf (sk_tlen sk) (sk_table sk) ->
  twf (sk_tlen sk) (fst (step4 sk h)).
Proof.
  intros Hwf Hpos Ht.
  pose proof (index_of_lt sk h 0 Hwf Hpos) as I0.
  pose proof (index_of_lt sk h 1 Hwf Hpos) as I1.
  pose proof (index_of_lt sk h 2 Hwf Hpos) as I2.
  pose proof (index_of_lt sk h 3 Hwf Hpos) as I3.
  pose proof (hstart_le h) as Hs.
  unfold step4. cbv zeta.
  pose proof (increment_at_twf _ (sk_table sk) (index_of sk h 0) (hstart h + 0) Ht I0) as T0.
  destruct (increment_at _ _ _) as [t0 a0]. cbn [fst] in T0.
  specialize (T0 ltac:(lia)).
  pose proof (increment_at_twf _ t0 (index_of sk h 1) (hstart h + 1) T0 I1) as T1.
  destruct (increment_at _ _ _) as [t1 a1]. cbn [fst] in T1.
  specialize (T1 ltac:(lia)).
  pose proof (increment_at_twf _ t1 (index_of sk h 2) (hstart h + 2) T1 I2) as T2.
  destruct (increment_at _ _ _) as [t2 a2]. cbn [fst] in T2.
  specialize (T2 ltac:(lia)).
  pose proof (increment_at_twf _ t2 (index_of sk h 3) (hstart h + 3) T2 I3) as T3.
  destruct (increment_at _ _ _) as [t3 a3]. cbn [fst] in T3.
  specialize (T3 ltac:(lia)). exact T3.
Qed.

(* ------------------------------------------------------------------ *)
(** * Frequencies of [mid] *)

Lemma counters_of_lt sk h x y : In (x, y) (counters_of sk h) -> y < 16.
Proof.
  pose proof (hstart_le h). unfold counters_of. cbn [In].
  intros [E | [E | [E | [E | []]]]]; injection E as <- <-; lia.
Qed.

Lemma freq4_le_counter t sk h x y :
  In (x, y) (counters_of sk h) -> freq4 t sk h <= cnt t x y.
Proof.
  unfold counters_of, freq4. cbn [In].
  intros [E | [E | [E | [E | []]]]]; injection E as <- <-; lia.
Qed.

Lemma freq4_glb t sk h c :
  (forall x y, In (x, y) (counters_of sk h) -> c <= cnt t x y) -> c <= freq4 t sk h.
Proof.
  intros H. unfold freq4.
  pose proof (H (index_of sk h 0) (hstart h + 0)) as H0.
  pose proof (H (index_of sk h 1) (hstart h + 1)) as H1.
  pose proof (H (index_of sk h 2) (hstart h + 2)) as H2.
  pose proof (H (index_of sk h 3) (hstart h + 3)) as H3.
  unfold counters_of in *. cbn [In] in *.
  specialize (H0 ltac:(auto)). specialize (H1 ltac:(auto)).
  specialize (H2 ltac:(auto)). specialize (H3 ltac:(auto 6)). lia.
Qed.

Lemma freq4_mask t sk sk' h :
  sk_mask sk' = sk_mask sk -> freq4 t sk' h = freq4 t sk h.
Proof.
  intros Hm. unfold freq4. rewrite !(index_of_mask sk sk') by assumption. reflexivity.
Qed.

Lemma mid_tlen sk h : sk_tlen (mid sk h) = sk_tlen sk.
Proof. reflexivity. Qed.
Lemma mid_mask sk h : sk_mask (mid sk h) = sk_mask sk.
Proof. reflexivity. Qed.
Lemma mid_sample sk h : sk_sample (mid sk h) = sk_sample sk.
Proof. reflexivity. Qed.

Lemma mid_freq_ge sk h' h : frequency sk h <= frequency (mid sk h') h.
Proof.
  rewrite !frequency_eq, mid_tlen.
  destruct (sk_tlen sk =? 0); [lia|].
  rewrite (freq4_mask _ sk (mid sk h')) by reflexivity.
  apply freq4_glb. intros x y Hin.
  cbn [mid sk_table].
  pose proof (freq4_le_counter (sk_table sk) sk h x y Hin).
  pose proof (step4_cnt_ge sk h' x y). lia.
Qed.

Lemma mid_freq_self sk h :
  sk_tlen sk <> 0 ->
  N.min (frequency sk h + 1) 15 <= frequency (mid sk h) h.
Proof.
  intros Hlen. rewrite !frequency_eq, mid_tlen.
  apply N.eqb_neq in Hlen. rewrite Hlen.
  rewrite (freq4_mask _ sk (mid sk h)) by reflexivity.
  apply freq4_glb. intros x y Hin.
  cbn [mid sk_table]. rewrite step4_cnt_self by assumption.
  pose proof (freq4_le_counter (sk_table sk) sk h x y Hin). lia.
Qed.

(* ------------------------------------------------------------------ *)
(** * [reset] *)

Definition halve (w : N) : N := N.land (N.shiftr w 1) RESET_MASK.

Lemma reset_eq sk :
  reset sk =
  if two32 <=? odd_count (sk_table sk) then Err Overflow
  else Ok (mkSketch (sk_sample sk) (sk_mask sk) (sk_tlen sk) (halve <$> sk_table sk)
            (N.shiftr (sk_size sk) 1 - N.shiftr (odd_count (sk_table sk)) 2)).
Proof. reflexivity. Qed.

Lemma reset_inv sk sk' :
  reset sk = Ok sk' ->
  sk_tlen sk' = sk_tlen sk /\ sk_mask sk' = sk_mask sk /\
  sk_sample sk' = sk_sample sk /\ sk_table sk' = halve <$> sk_table sk /\
  sk_size sk' <= sk_size sk / 2.
Proof.
  rewrite reset_eq. destruct (two32 <=? _); [discriminate|].
  intros H. injection H as <-. cbn [sk_tlen sk_mask sk_sample sk_table sk_size].
  repeat split; try reflexivity.
  rewrite N.shiftr_div_pow2. change (2 ^ 1) with 2. lia.
Qed.

Lemma cnt_halve t x y : y < 16 -> cnt (halve <$> t) x y = cnt t x y / 2.
Proof.
  intros Hy. unfold cnt. rewrite tget_fmap by reflexivity.
  apply nib_reset. assumption.
Qed.

Lemma min_div2 a b : N.min a b / 2 = N.min (a / 2) (b / 2).
Proof.
  destruct (N.le_ge_cases a b) as [H | H].
  - rewrite !N.min_l; auto. apply N.div_le_mono; [discriminate | assumption].
  - rewrite !N.min_r; auto. apply N.div_le_mono; [discriminate | assumption].
Qed.

Lemma reset_halves_frequency sk sk' :
  reset sk = Ok sk' -> forall h, frequency sk' h = frequency sk h / 2.
Proof.
  intros Hr h. apply reset_inv in Hr as (Hl & Hm & _ & Ht & _).
  rewrite !frequency_eq, Hl, Ht.
  destruct (sk_tlen sk =? 0); [reflexivity|].
  rewrite (freq4_mask _ sk sk') by assumption.
  unfold freq4. pose proof (hstart_le h).
  rewrite !cnt_halve by lia. rewrite !min_div2. reflexivity.
Qed.

Lemma halve_twf n t : twf n t -> twf n (halve <$> t).
Proof.
  intros Ht i w Hi. rewrite lookup_fmap in Hi.
  destruct (t !! i) as [w0|] eqn:E; [|discriminate].
  cbn in Hi. injection Hi as <-. apply Ht in E as [E _].
  split; [assumption | apply reset_word_bound].
Qed.

(* ------------------------------------------------------------------ *)
(** * [increment] never fails and preserves well-formedness *)

Lemma wf_intro sk :
  (exists j, sk_tlen sk = 2 ^ j) -> sk_mask sk = sk_tlen sk - 1 ->
  twf (sk_tlen sk) (sk_table sk) -> sk_size sk < sk_sample sk ->
  sk_sample sk <= 2147483647 -> sk_wf sk.
Proof. intros. right. auto. Qed.

Lemma step4_load sk h :
  odd_count (fst (step4 sk h)) <= odd_count (sk_table sk) + 4 /\
  N.of_nat (size (fst (step4 sk h))) <= N.of_nat (size (sk_table sk)) + 4.
Proof.
  pose proof (hstart_le h) as Hs. unfold step4. cbv zeta.
  pose proof (increment_at_load (sk_table sk) (index_of sk h 0) (hstart h + 0)
                ltac:(lia)) as [A0 B0].
  destruct (increment_at _ _ _) as [t0 a0]. cbn [fst] in A0, B0.
  pose proof (increment_at_load t0 (index_of sk h 1) (hstart h + 1) ltac:(lia)) as [A1 B1].
  destruct (increment_at _ _ _) as [t1 a1]. cbn [fst] in A1, B1.
  pose proof (increment_at_load t1 (index_of sk h 2) (hstart h + 2) ltac:(lia)) as [A2 B2].
  destruct (increment_at _ _ _) as [t2 a2]. cbn [fst] in A2, B2.
  pose proof (increment_at_load t2 (index_of sk h 3) (hstart h + 3) ltac:(lia)) as [A3 B3].
  destruct (increment_at _ _ _) as [t3 a3]. cbn [fst] in A3, B3.
  cbn [fst]. lia.
Qed.

(** General form: the only way [increment] can fail on a well-formed sketch is the
    u32 odd-counter accumulator of [reset]. *)
Lemma increment_ok_gen sk h :
  sk_wf sk -> odd_count (sk_table sk) + 4 < two32 ->
  exists sk', increment sk h = Ok sk' /\ sk_wf sk' /\
              sk_tlen sk' = sk_tlen sk /\ sk_mask sk' = sk_mask sk /\
              sk_sample sk' = sk_sample sk /\
              N.of_nat (size (sk_table sk')) <= N.of_nat (size (sk_table sk)) + 4.
Proof.
  intros Hwf Hodd. pose proof Hwf as Hwf0.
  destruct Hwf as [[H0 Hemp] | (Hj & Hm & Ht & Hsz & Hsm)].
  - exists sk. rewrite increment_eq, H0. cbn [N.eqb]. change (0 =? 0) with true.
    cbv iota. repeat split; auto. lia.
  - assert (Hpos : 0 < sk_tlen sk).
    { destruct Hj as [j ->]. apply pow2_pos. }
    rewrite increment_mid by (try lia; left; unfold two32; lia).
    pose proof (step4_twf sk h Hwf0 Hpos Ht) as Htw.
    pose proof (step4_load sk h) as [Hload Hsize].
    rewrite aged_eq.
    destruct (sk_tlen sk =? 0) eqn:El; [apply N.eqb_eq in El; lia|].
    destruct (snd (step4 sk h) && (sk_sample sk <=? sk_size sk + 1)) eqn:Eag.
    + (* aging *)
      apply andb_true_iff in Eag as [Ea Es]. apply N.leb_le in Es.
      rewrite reset_eq. cbn [mid sk_table].
      destruct (two32 <=? odd_count (fst (step4 sk h))) eqn:Eov.
      { apply N.leb_le in Eov. lia. }
      eexists. split; [reflexivity|].
      split; [|cbn [sk_tlen sk_mask sk_sample sk_table mid]; repeat split; auto].
      * apply wf_intro; cbn [sk_tlen sk_mask sk_sample sk_table sk_size mid]; auto.
        -- apply halve_twf. assumption.
        -- rewrite Ea.
           assert (Hq : N.shiftr (sk_size sk + 1) 1 < sk_sample sk); [|lia].
           rewrite N.shiftr_div_pow2. change (2 ^ 1) with 2.
           apply N.div_lt_upper_bound; [discriminate | lia].
      * rewrite map_size_fmap. assumption.
    + eexists. split; [reflexivity|].
      split; [|cbn [sk_tlen sk_mask sk_sample sk_table mid]; repeat split; auto].
      apply wf_intro; cbn [sk_tlen sk_mask sk_sample sk_table sk_size mid]; auto.
      destruct (snd (step4 sk h)); [|assumption].
      cbn [andb] in Eag. apply N.leb_gt in Eag. lia.
Qed.

Lemma sk_wf_twf sk : sk_wf sk -> twf (sk_tlen sk) (sk_table sk).
Proof.
  intros [[_ Hemp] | (_ & _ & Ht & _)]; [|exact Ht].
  rewrite Hemp. intros i w Hi. rewrite lookup_empty in Hi. discriminate.
Qed.

(** well-formed sketches never have more words than the table length *)
Lemma sk_wf_size sk : sk_wf sk -> N.of_nat (size (sk_table sk)) <= sk_tlen sk.
Proof.
  intros Hwf. apply twf_size. intros i w Hi.
  apply (sk_wf_twf sk Hwf) in Hi. tauto.
Qed.

(** the no-overflow hypothesis on the number of words ever touched *)
Lemma increment_ok_load : forall sk h,
  sk_wf sk -> N.of_nat (size (sk_table sk)) < 2 ^ 28 ->
  exists sk', increment sk h = Ok sk' /\ sk_wf sk' /\
              sk_tlen sk' = sk_tlen sk /\ sk_mask sk' = sk_mask sk /\
              sk_sample sk' = sk_sample sk /\
              N.of_nat (size (sk_table sk')) <= N.of_nat (size (sk_table sk)) + 4.
Proof.
  intros sk h Hwf Hsz. apply increment_ok_gen; [assumption|].
  pose proof (odd_count_le_size (sk_table sk)).
  change (2 ^ 28) with 268435456 in Hsz. unfold two32. lia.
Qed.

Lemma increment_ok sk h :
  sk_wf sk -> sk_tlen sk < 2 ^ 28 ->
  exists sk', increment sk h = Ok sk' /\ sk_wf sk' /\
              sk_tlen sk' = sk_tlen sk /\ sk_mask sk' = sk_mask sk /\
              sk_sample sk' = sk_sample sk.
Proof.
  intros Hwf Hlen.
  destruct (increment_ok_load sk h Hwf) as (sk' & H1 & H2 & H3 & H4 & H5 & _).
  - pose proof (sk_wf_size sk Hwf). lia.
  - exists sk'. auto.
Qed.

(* ------------------------------------------------------------------ *)
(** * Monotonicity outside aging; aging is [reset] after the recording *)

Lemma increment_no_age_mono sk h' sk' :
  sk_wf sk -> increment sk h' = Ok sk' -> aged sk h' = false ->
  forall h, frequency sk h <= frequency sk' h.
Proof.
  intros _ Hinc Hag h.
  destruct (N.eq_dec (sk_tlen sk) 0) as [H0 | H0].
  - rewrite increment_eq, H0 in Hinc. cbn in Hinc. injection Hinc as <-. lia.
  - rewrite increment_mid in Hinc by (eauto). rewrite Hag in Hinc.
    injection Hinc as <-. apply mid_freq_ge.
Qed.

Lemma increment_aged_is_reset sk h :
  sk_wf sk -> 0 < sk_tlen sk -> aged sk h = true ->
  exists mid, increment sk h = reset mid /\
              (forall h0, frequency sk h0 <= frequency mid h0).
Proof.
  intros Hwf Hpos Hag. exists (mid sk h). split.
  - rewrite increment_mid, Hag; [reflexivity | lia |].
    left. destruct Hwf as [[H0 _] | (_ & _ & _ & Hsz & Hsm)]; [lia|].
    unfold two32. lia.
  - intros h0. apply mid_freq_ge.
Qed.

(* ------------------------------------------------------------------ *)
(** * One recorded lookup, seen from a reference count *)

Lemma increment_geometry sk h sk' :
  increment sk h = Ok sk' ->
  sk_tlen sk' = sk_tlen sk /\ sk_mask sk' = sk_mask sk.
Proof.
  intros Hinc.
  destruct (N.eq_dec (sk_tlen sk) 0) as [H0 | H0].
  - rewrite increment_eq, H0 in Hinc. cbn in Hinc. injection Hinc as <-. auto.
  - rewrite increment_mid in Hinc by eauto.
    destruct (aged sk h).
    + apply reset_inv in Hinc as (Hl & Hm & _). rewrite Hl, Hm. auto.
    + injection Hinc as <-. auto.
Qed.

Definition ref_step (sk : sketch) (h h' c : N) : N :=
  let c1 := if h' =? h then N.min (c + 1) 15 else c in
  if aged sk h' then c1 / 2 else c1.

Lemma ref_count_cons sk h c h' r sk' :
  increment sk h' = Ok sk' ->
  ref_count sk h c (h' :: r) = ref_count sk' h (ref_step sk h h' c) r.
Proof. intros Hinc. cbn [ref_count]. rewrite Hinc. reflexivity. Qed.

Lemma incr_all_cons sk h' r sk2 :
  incr_all sk (h' :: r) = Ok sk2 ->
  exists sk1, increment sk h' = Ok sk1 /\ incr_all sk1 r = Ok sk2.
Proof.
  cbn [incr_all]. destruct (increment sk h') as [sk1 | e]; cbn [rbind]; [|discriminate].
  eauto.
Qed.

Lemma step_ge sk h h' c sk' :
  sk_tlen sk <> 0 -> increment sk h' = Ok sk' ->
  c <= frequency sk h -> ref_step sk h h' c <= frequency sk' h.
Proof.
  intros Hlen Hinc Hc.
  rewrite increment_mid in Hinc by eauto.
  assert (Hmid : (if h' =? h then N.min (c + 1) 15 else c) <= frequency (mid sk h') h).
  { destruct (h' =? h) eqn:E.
    - apply N.eqb_eq in E. subst h'.
      pose proof (mid_freq_self sk h Hlen). lia.
    - pose proof (mid_freq_ge sk h' h). lia. }
  unfold ref_step. cbv zeta.
  destruct (aged sk h').
  - rewrite (reset_halves_frequency _ _ Hinc).
    apply N.div_le_mono; [discriminate | assumption].
  - injection Hinc as <-. assumption.
Qed.

Lemma freq_ge_ref_count_gen hs : forall sk0 h c sk,
  sk_tlen sk0 <> 0 -> c <= frequency sk0 h ->
  incr_all sk0 hs = Ok sk ->
  ref_count sk0 h c hs <= frequency sk h.
Proof.
  induction hs as [|h' r IH]; intros sk0 h c sk Hlen Hc Hall.
  - cbn in Hall. injection Hall as <-. exact Hc.
  - apply incr_all_cons in Hall as (sk1 & Hinc & Hall).
    rewrite (ref_count_cons _ _ _ _ _ _ Hinc).
    pose proof (increment_geometry _ _ _ Hinc) as [Hl _].
    apply IH; [congruence | | assumption].
    eapply step_ge; eauto.
Qed.

Lemma fresh_tlen cap : sk_tlen (fresh cap) <> 0.
Proof. pose proof (fresh_wf cap) as [_ H]. lia. Qed.

Lemma freq_ge_ref_count cap hs h sk :
  incr_all (fresh cap) hs = Ok sk ->
  ref_count (fresh cap) h 0 hs <= frequency sk h.
Proof.
  apply freq_ge_ref_count_gen; [apply fresh_tlen | lia].
Qed.

(** the private counter carries the reference count exactly *)
Lemma step_private sk h h' x y sk' :
  sk_tlen sk <> 0 -> increment sk h' = Ok sk' ->
  In (x, y) (counters_of sk h) ->
  (h' <> h -> ~ In (x, y) (counters_of sk h')) ->
  cnt (sk_table sk') x y = ref_step sk h h' (cnt (sk_table sk) x y).
Proof.
  intros Hlen Hinc Hin Hpriv.
  rewrite increment_mid in Hinc by eauto.
  assert (Hmid : cnt (sk_table (mid sk h')) x y =
                 if h' =? h then N.min (cnt (sk_table sk) x y + 1) 15
                 else cnt (sk_table sk) x y).
  { cbn [mid sk_table]. destruct (h' =? h) eqn:E.
    - apply N.eqb_eq in E. subst h'. apply step4_cnt_self. assumption.
    - apply N.eqb_neq in E. apply step4_cnt_other. auto. }
  unfold ref_step. cbv zeta.
  destruct (aged sk h').
  - apply reset_inv in Hinc as (_ & _ & _ & Ht & _).
    rewrite Ht, cnt_halve by (eapply counters_of_lt; eauto).
    rewrite Hmid. reflexivity.
  - injection Hinc as <-. assumption.
Qed.

Lemma private_ref_count hs : forall sk0 h x y sk,
  sk_tlen sk0 <> 0 ->
  In (x, y) (counters_of sk0 h) ->
  (forall h', In h' hs -> h' <> h -> ~ In (x, y) (counters_of sk0 h')) ->
  incr_all sk0 hs = Ok sk ->
  cnt (sk_table sk) x y = ref_count sk0 h (cnt (sk_table sk0) x y) hs /\
  sk_tlen sk = sk_tlen sk0 /\ sk_mask sk = sk_mask sk0.
Proof.
  induction hs as [|h' r IH]; intros sk0 h x y sk Hlen Hin Hpriv Hall.
  - cbn in Hall. injection Hall as <-. cbn. auto.
  - apply incr_all_cons in Hall as (sk1 & Hinc & Hall).
    rewrite (ref_count_cons _ _ _ _ _ _ Hinc).
    pose proof (increment_geometry _ _ _ Hinc) as [Hl Hm].
    rewrite <- (step_private sk0 h h' x y sk1 Hlen Hinc Hin)
      by (apply Hpriv; left; reflexivity).
    destruct (IH sk1 h x y sk) as (Hc & Hl' & Hm'); try assumption.
    + congruence.
    + rewrite (counters_of_mask sk0 sk1) by assumption. assumption.
    + intros h'' Hin'' Hne. rewrite (counters_of_mask sk0 sk1) by assumption.
      apply Hpriv; [right; assumption | assumption].
    + split; [assumption|]. split; congruence.
Qed.

Lemma cnt_empty x y : cnt ∅ x y = 0.
Proof.
  unfold cnt, tget, nib. rewrite lookup_empty. cbn [default].
  rewrite N.shiftr_0_l. reflexivity.
Qed.

Lemma freq_eq_ref_count cap hs h sk :
  has_private_counter (fresh cap) h hs ->
  incr_all (fresh cap) hs = Ok sk ->
  frequency sk h = ref_count (fresh cap) h 0 hs.
Proof.
  intros [[x y] [Hin Hpriv]] Hall.
  apply N.le_antisymm; [|apply freq_ge_ref_count; assumption].
  pose proof (fresh_tlen cap) as Hlen.
  destruct (private_ref_count hs (fresh cap) h x y sk Hlen Hin Hpriv Hall)
    as (Hc & Hl & Hm).
  assert (H0 : cnt (sk_table (fresh cap)) x y = 0).
  { unfold fresh, ensure_capacity. cbv zeta.
    destruct (_ <=? _); apply cnt_empty. }
  rewrite H0 in Hc. rewrite <- Hc.
  rewrite frequency_eq. destruct (sk_tlen sk =? 0); [lia|].
  apply freq4_le_counter. rewrite (counters_of_mask (fresh cap) sk) by assumption.
  assumption.
Qed.

(* ------------------------------------------------------------------ *)
(** * [ensure_capacity] and the default sketch *)

Lemma sk_wf_empty : sk_wf sk_empty.
Proof. left. split; reflexivity. Qed.

(** The sample size chosen by a resize is at least 10. *)
Lemma new_sample_ge_10 cap :
  10 <= (if cap =? 0 then 10
         else N.min (sat_mul32 (N.min cap SKETCH_MAX_CAP) SKETCH_SAMPLE_MUL) 2147483647).
Proof.
  destruct (cap =? 0) eqn:Ec; [lia|]. apply N.eqb_neq in Ec.
  unfold sat_mul32, u32_max, SKETCH_SAMPLE_MUL, SKETCH_MAX_CAP. lia.
Qed.

(** [sk_wf] alone does not bound the kept sampling counter by the NEW sample size
    (see SketchExamples.v for counterexamples), hence the extra hypothesis. *)
Lemma ensure_capacity_wf_small : forall sk cap,
  sk_wf sk -> sk_size sk < 10 ->
  sk_wf (ensure_capacity sk cap) /\
  N.of_nat (size (sk_table (ensure_capacity sk cap))) <= N.of_nat (size (sk_table sk)).
Proof.
  intros sk cap Hwf Hsz. unfold ensure_capacity. cbv zeta.
  set (maximum := N.min cap SKETCH_MAX_CAP).
  set (ts := if maximum =? 0 then 1 else next_pow2 maximum).
  destruct (ts <=? sk_tlen sk) eqn:E; [split; [assumption | lia]|].
  split; [|cbn [sk_table]; rewrite map_size_empty; lia].
  pose proof (new_sample_ge_10 cap) as Hs. fold maximum in Hs.
  apply wf_intro; cbn [sk_tlen sk_mask sk_sample sk_table sk_size].
  - unfold ts. destruct (maximum =? 0).
    + exists 0. reflexivity.
    + eexists. reflexivity.
  - reflexivity.
  - intros i w Hi. rewrite lookup_empty in Hi. discriminate.
  - lia.
  - destruct (cap =? 0); [discriminate | apply N.le_min_r].
Qed.

(** the version the caches use: resizing the default (or any not yet sized and not
    yet sampled) sketch *)
Lemma ensure_capacity_wf_fresh : forall sk cap,
  sk_wf sk -> sk_tlen sk = 0 -> sk_size sk = 0 ->
  sk_wf (ensure_capacity sk cap) /\
  N.of_nat (size (sk_table (ensure_capacity sk cap))) <= N.of_nat (size (sk_table sk)).
Proof.
  intros sk cap Hwf _ Hsz. apply ensure_capacity_wf_small; [assumption | lia].
Qed.

Lemma ensure_capacity_tlen_pos sk cap : 0 < sk_tlen (ensure_capacity sk cap).
Proof.
  unfold ensure_capacity. cbv zeta.
  set (maximum := N.min cap SKETCH_MAX_CAP).
  set (ts := if maximum =? 0 then 1 else next_pow2 maximum).
  assert (Hpos : 0 < ts).
  { unfold ts. destruct (maximum =? 0); [lia | apply pow2_pos]. }
  destruct (ts <=? sk_tlen sk) eqn:E; [apply N.leb_le in E; lia | exact Hpos].
Qed.
