(** IEEE-754 binary64 round-to-nearest-even division and multiplication of positive
    integers, on N/Z, used only to reproduce
      (entry_count as f64 * (weighted_size as f64 / max_cap as f64)) as u64
    of enable_frequency_sketch.  No theorem depends on the value; the lock-step
    correspondence validates it.  Definitions only. *)
From Coq Require Import NArith ZArith Bool.
Open Scope bool_scope.
Open Scope N_scope.

(** A positive double as mantissa * 2^exp with 2^52 <= mantissa < 2^53 (normal range;
    subnormals/overflow cannot arise for the operand ranges used here). *)
Record f64 := mkF { f_man : N; f_exp : Z }.

Definition two52 : N := 4503599627370496.
Definition two53 : N := 9007199254740992.

(** round-to-nearest-even of num/den (num, den > 0) to a 53-bit mantissa *)
Definition round_ratio (num den : N) : f64 :=
  let k := (Z.of_N (N.log2 num) - Z.of_N (N.log2 den))%Z in
  (* scale so that the quotient has 53 or 54 bits, then fix up *)
  let s := (52 - k)%Z in
  let scaled (s : Z) : N * N :=
    if (0 <=? s)%Z then (num * 2 ^ Z.to_N s, den) else (num, den * 2 ^ Z.to_N (- s)) in
  let '(n1, d1) := scaled s in
  let q1 := n1 / d1 in
  let '(s, n, d) := if q1 <? two52 then let '(n2, d2) := scaled (s + 1)%Z in ((s + 1)%Z, n2, d2)
                    else (s, n1, d1) in
  let q := n / d in
  let r := n mod d in
  let q' := if (d <? 2 * r) || ((2 * r =? d) && N.odd q) then q + 1 else q in
  if q' =? two53 then mkF two52 (1 - s)%Z else mkF q' (- s)%Z.

(** u64 as f64 (exact below 2^53, rounded above); 0 is handled by the callers *)
Definition of_N (a : N) : f64 := round_ratio a 1.

Definition fdiv (a b : f64) : f64 :=
  let r := round_ratio (f_man a) (f_man b) in
  mkF (f_man r) (f_exp r + f_exp a - f_exp b)%Z.

Definition fmul (a b : f64) : f64 :=
  let r := round_ratio (f_man a * f_man b) 1 in
  mkF (f_man r) (f_exp r + f_exp a + f_exp b)%Z.

(** `as u64`: truncation toward zero, saturating *)
Definition to_u64 (a : f64) : N :=
  let v := if (0 <=? f_exp a)%Z then f_man a * 2 ^ Z.to_N (f_exp a)
           else f_man a / 2 ^ Z.to_N (- f_exp a) in
  N.min v 18446744073709551615.

(** (ec as f64 * (ws as f64 / max_cap as f64)) as u64, with the IEEE special cases
    that can arise: 0/0 = NaN -> 0; x/0 = inf -> 0 * inf = NaN -> 0 if ec = 0,
    else inf -> u64::MAX; 0 operands -> 0. *)
Definition weighted_sketch_cap (ec ws max_cap : N) : N :=
  if max_cap =? 0 then
    (if (ws =? 0) || (ec =? 0) then 0 else 18446744073709551615)
  else if (ws =? 0) || (ec =? 0) then 0
  else to_u64 (fmul (of_N ec) (fdiv (of_N ws) (of_N max_cap))).
