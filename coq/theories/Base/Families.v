(** The fixed families of hashers, weighers and predicates the history format can name
    (the theorems quantify over arbitrary functions; these are the ones the
    correspondence check can also run on the implementation).  Definitions only. *)
From MM Require Export Base.Prelude.

Inductive hkind := HId | HMod (m : N) | HConst (c : N) | HMul (a : N).
Definition hasher_of (h : hkind) (k : N) : N :=
  match h with
  | HId => k
  | HMod m => if m =? 0 then 0 else k mod m
  | HConst c => c
  | HMul a => wmul64 k a
  end.

Inductive wkind := WNone | WValue | WKeyPlusValue.
Definition weigher_of (w : wkind) : option (N -> N -> N) :=
  match w with
  | WNone => None
  | WValue => Some (fun _ v => v mod two32)
  | WKeyPlusValue => Some (fun k v => (k + v) mod two32)
  end.

Inductive pkind := PAll | PKeyMod (m r : N) | PValLt (x : N).
Definition pred_of (p : pkind) (k v : N) : bool :=
  match p with
  | PAll => true
  | PKeyMod m r => if m =? 0 then false else k mod m =? r
  | PValLt x => v <? x
  end.
