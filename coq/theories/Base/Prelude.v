(** Base definitions shared by every model: the error/result monad and the
    machine-integer operations of the Rust source with their wrap / saturation /
    overflow behaviour written out.  Definitions only (no proofs) so that the
    models keep running when a proof breaks. *)
From Coq Require Export NArith List Bool Lia.
From stdpp Require Export gmap.
Export ListNotations.

#[global] Arguments N.add : simpl never.
#[global] Arguments N.sub : simpl never.
#[global] Arguments N.mul : simpl never.
#[global] Arguments N.ltb : simpl never.
#[global] Arguments N.leb : simpl never.
#[global] Arguments N.eqb : simpl never.
#[global] Arguments N.div : simpl never.
#[global] Arguments N.modulo : simpl never.
#[global] Arguments N.pow : simpl never.
#[global] Arguments N.land : simpl never.
#[global] Arguments N.lor : simpl never.
#[global] Arguments N.shiftl : simpl never.
#[global] Arguments N.shiftr : simpl never.
#[global] Arguments N.min : simpl never.
#[global] Arguments N.max : simpl never.

Open Scope N_scope.

(** Every way the Rust code can fail without it being the caller's fault. *)
Inductive err :=
| UseAfterFree   (* dereference of a deque node that has been freed *)
| DoubleFree     (* Box::from_raw on a node that is not live *)
| NotMember      (* unsafe deque operation on a node of another / no deque *)
| Unreachable    (* unreachable!() *)
| ExpectFailed   (* Option::expect / unwrap on None *)
| Panic          (* explicit panic!() / assert! of the library *)
| Overflow       (* arithmetic that panics with overflow checks on *)
| OutOfFuel.     (* a modelled loop ran out of explicit fuel *)

Inductive res (A : Type) :=
| Ok (a : A)
| Err (e : err).
Arguments Ok {A} a.
Arguments Err {A} e.

Definition rbind {A B} (m : res A) (f : A -> res B) : res B :=
  match m with Ok a => f a | Err e => Err e end.

Notation "x <-r m ; k" := (rbind m (fun x => k))
  (at level 100, m at next level, right associativity, only parsing).
Notation "' p <-r m ; k" := (rbind m (fun x => match x with p => k end))
  (at level 100, p pattern, m at next level, right associativity, only parsing).

Definition is_ok {A} (m : res A) : bool := match m with Ok _ => true | Err _ => false end.

Definition two32 : N := 4294967296.
Definition two64 : N := 18446744073709551616.
Definition u32_max : N := 4294967295.
Definition u64_max : N := 18446744073709551615.

(** u64 operations *)
Definition wadd64 (a b : N) : N := (a + b) mod two64.
Definition wmul64 (a b : N) : N := (a * b) mod two64.
Definition sat_add64 (a b : N) : N := N.min (a + b) u64_max.
Definition sat_sub (a b : N) : N := a - b.            (* N subtraction truncates at 0 *)
Definition chk_add64 (a b : N) : res N :=
  if a + b <? two64 then Ok (a + b) else Err Overflow.
Definition chk_sub (a b : N) : res N :=
  if b <=? a then Ok (a - b) else Err Overflow.
(** u32 operations *)
Definition chk_add32 (a b : N) : res N :=
  if a + b <? two32 then Ok (a + b) else Err Overflow.
Definition sat_mul32 (a b : N) : N := N.min (a * b) u32_max.

Definition opt_default {A} (d : A) (o : option A) : A :=
  match o with Some a => a | None => d end.

(** first index of an element with a given id in an id-tagged list *)
Fixpoint find_id {A} (n : N) (l : list (N * A)) : option A :=
  match l with
  | [] => None
  | (m, a) :: r => if N.eqb m n then Some a else find_id n r
  end.

Fixpoint remove_id {A} (n : N) (l : list (N * A)) : list (N * A) :=
  match l with
  | [] => []
  | (m, a) :: r => if N.eqb m n then r else (m, a) :: remove_id n r
  end.

Fixpoint update_id {A} (n : N) (f : A -> A) (l : list (N * A)) : list (N * A) :=
  match l with
  | [] => []
  | (m, a) :: r => if N.eqb m n then (m, f a) :: r else (m, a) :: update_id n f r
  end.

Definition mem_id {A} (n : N) (l : list (N * A)) : bool :=
  match find_id n l with Some _ => true | None => false end.
